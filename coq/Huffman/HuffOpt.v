(** Optimality of the greedy (Huffman) merge cost: for EVERY pairing of the weights with EVERY depth
    multiset realisable by a binary tree, the greedy cost on the sorted weights is a lower bound. *)
From Coq Require Import List Arith Lia Permutation Sorted.
Import ListNotations.

(* cost of a pairing weights <-> depths *)
Definition cost (ps : list (nat * nat)) : nat := list_sum (map (fun p => fst p * snd p) ps).

Lemma cost_app l1 l2 : cost (l1 ++ l2) = cost l1 + cost l2.
Proof. unfold cost. now rewrite map_app, list_sum_app. Qed.

Lemma cost_cons p l : cost (p :: l) = fst p * snd p + cost l.
Proof. reflexivity. Qed.


(* Permutation goals on nat lists by multiplicity counting *)
Ltac perm_hyps z :=
  repeat match goal with
  | H : Permutation ?a ?b |- _ =>
      let H' := fresh "Hc" in
      pose proof (proj1 (Permutation_count_occ Nat.eq_dec a b) H z) as H'; clear H
  end.
Ltac perm_lia :=
  let z := fresh "z" in
  apply (Permutation_count_occ Nat.eq_dec); intro z; perm_hyps z;
  repeat (rewrite ?count_occ_app in *; cbn [count_occ] in * );
  repeat match goal with
  | |- context [Nat.eq_dec ?a z] => destruct (Nat.eq_dec a z)
  | H : context [Nat.eq_dec ?a z] |- _ => destruct (Nat.eq_dec a z)
  end; try lia.

(* depth multisets realisable by a full binary tree *)
Inductive real : list nat -> Prop :=
| real_leaf : real [0]
| real_split d ds : real (d :: ds) -> real (S d :: S d :: ds)
| real_perm ds ds' : Permutation ds ds' -> real ds -> real ds'.

Lemma real_length ds : real ds -> 1 <= length ds.
Proof. induction 1; simpl in *; try lia. erewrite <- Permutation_length; eauto. Qed.

(* L1: two deepest leaves can be taken to be siblings *)
Lemma real_deepest ds : real ds -> 2 <= length ds ->
  exists d ds', Permutation ds (S d :: S d :: ds') /\ real (d :: ds') /\ Forall (fun x => x <= S d) ds.
Proof.
  induction 1 as [|d ds H IH|ds ds' HP H IH]; intros Hlen.
  - simpl in Hlen; lia.
  - (* split *)
    destruct ds as [|e ds0].
    + (* ds = [] : real [d], so list is [S d; S d] *)
      exists d, []. split; [reflexivity|]. split; [assumption|].
      repeat constructor.
    + assert (Hl : 2 <= length (d :: e :: ds0)) by (simpl; lia).
      destruct (IH Hl) as (m & ds1 & HP1 & HR1 & HF1).
      (* compare S d with S m *)
      destruct (le_lt_dec (S m) (S d)) as [Hle|Hlt].
      * (* S d is max *)
        exists d, (e :: ds0). split; [reflexivity|]. split; [assumption|].
        constructor; [lia|]. constructor; [lia|].
        inversion HF1 as [|? ? Hd HF1' ]; subst.
        eapply Forall_impl; [|exact HF1']. simpl; intros; lia.
      * (* deeper pair elsewhere; d must be in ds1 *)
        assert (Hin : In d (S m :: S m :: ds1)) by (eapply Permutation_in; [exact HP1|left; reflexivity]).
        destruct Hin as [Heq|[Heq|Hin]]; try lia.
        destruct (in_split _ _ Hin) as (l1 & l2 & ->).
        exists m, (S d :: S d :: l1 ++ l2). split; [|split].
        -- clear - HP1. perm_lia.
        -- (* real (m :: S d :: S d :: l1 ++ l2) *)
           apply real_perm with (S d :: S d :: m :: l1 ++ l2).
           ++ clear. perm_lia.
           ++ apply real_split.
              apply real_perm with (m :: l1 ++ d :: l2); [|assumption].
              clear. perm_lia.
        -- constructor; [lia|]. constructor; [lia|].
           inversion HF1 as [|? ? Hd HF1' ]; subst.
           eapply Forall_impl; [|exact HF1']. simpl; intros; lia.
  - (* perm *)
    assert (Hl : 2 <= length ds) by (erewrite Permutation_length; eauto).
    destruct (IH Hl) as (d & ds1 & HP1 & HR1 & HF1).
    exists d, ds1. split; [rewrite <- HP; assumption|]. split; [assumption|].
    eapply Permutation_Forall; eauto.
Qed.

(* L2a: put the minimum weight on a maximum depth *)
Lemma exchange ps a D :
  In a (map fst ps) -> (forall w, In w (map fst ps) -> a <= w) ->
  In D (map snd ps) -> (forall d, In d (map snd ps) -> d <= D) ->
  exists ps1, Permutation (map fst ps) (a :: map fst ps1) /\
              Permutation (map snd ps) (D :: map snd ps1) /\
              a * D + cost ps1 <= cost ps.
Proof.
  intros Ha Hmin HD Hmax.
  apply in_map_iff in Ha. destruct Ha as ([a' da] & Hfa & Hina). simpl in Hfa; subst a'.
  destruct (in_split _ _ Hina) as (l1 & l2 & ->).
  destruct (Nat.eq_dec da D) as [->|Hne].
  - exists (l1 ++ l2). rewrite !map_app. simpl.
    split; [symmetry; apply Permutation_middle|].
    split; [symmetry; apply Permutation_middle|].
    rewrite !cost_app, cost_cons. simpl. lia.
  - (* D occurs elsewhere *)
    assert (HD' : In D (map snd (l1 ++ l2))).
    { rewrite map_app in *. simpl in HD. apply in_app_or in HD. apply in_or_app.
      destruct HD as [|[|]]; auto. simpl in *; congruence. }
    apply in_map_iff in HD'. destruct HD' as ([x D'] & HfD & HinD). simpl in HfD; subst D'.
    destruct (in_split _ _ HinD) as (m1 & m2 & Hm).
    exists ((x, da) :: m1 ++ m2).
    assert (HP : Permutation (l1 ++ (a, da) :: l2) ((a, da) :: (x, D) :: m1 ++ m2)).
    { rewrite <- Permutation_middle. constructor. rewrite Hm. rewrite <- Permutation_middle. reflexivity. }
    split; [|split].
    + rewrite (Permutation_map fst HP). simpl. reflexivity.
    + rewrite (Permutation_map snd HP). simpl. apply perm_swap.
    + assert (Hc : cost (l1 ++ (a, da) :: l2) = a * da + x * D + cost (m1 ++ m2)).
      { rewrite cost_app, cost_cons. simpl.
        assert (cost l1 + cost l2 = cost (l1 ++ l2)) by (now rewrite cost_app).
        rewrite Hm in H. rewrite cost_app, cost_cons in H. simpl in H. rewrite cost_app. lia. }
      rewrite Hc, cost_cons. simpl.
      assert (a <= x).
      { apply Hmin. rewrite (Permutation_map fst HP). simpl. auto. }
      assert (da <= D).
      { apply Hmax. rewrite (Permutation_map snd HP). simpl. auto. }
      nia.
Qed.

(* greedy Huffman cost on a sorted list of weights *)
Fixpoint insert (x : nat) (l : list nat) : list nat :=
  match l with [] => [x] | y :: l' => if x <=? y then x :: l else y :: insert x l' end.

Fixpoint hcost (fuel : nat) (l : list nat) : nat :=
  match fuel with
  | 0 => 0
  | S f => match l with a :: b :: rest => a + b + hcost f (insert (a + b) rest) | _ => 0 end
  end.

Lemma insert_perm x l : Permutation (insert x l) (x :: l).
Proof.
  induction l as [|y l IH]; simpl; [reflexivity|].
  destruct (x <=? y); [reflexivity|]. rewrite IH. apply perm_swap.
Qed.

Lemma insert_sorted x l : StronglySorted le l -> StronglySorted le (insert x l).
Proof.
  induction 1 as [|y l Hs IH Hf]; simpl; [repeat constructor|].
  destruct (Nat.leb_spec x y).
  - constructor; [constructor; assumption|]. constructor; [assumption|].
    eapply Forall_impl; [|exact Hf]. simpl; intros; lia.
  - constructor; [assumption|].
    eapply Permutation_Forall; [symmetry; apply insert_perm|]. constructor; [lia|assumption].
Qed.

Theorem huffman_optimal : forall n ps ws,
  length ps = n -> real (map snd ps) ->
  Permutation ws (map fst ps) -> StronglySorted le ws ->
  hcost n ws <= cost ps.
Proof.
  induction n as [|n IH]; intros ps ws Hlen Hreal Hperm Hsort; [simpl; lia|].
  destruct ws as [|a [|b rest]]; simpl; try lia.
  assert (Hn : 2 <= length (map snd ps)).
  { rewrite map_length. rewrite <- (map_length fst ps). rewrite <- (Permutation_length Hperm). simpl; lia. }
  destruct (real_deepest _ Hreal Hn) as (d & ds' & HPd & HRd & HFd).
  (* a is min, b second *)
  inversion Hsort as [|? ? Hs1 Hfa]; subst.
  inversion Hs1 as [|? ? Hs2 Hfb]; subst.
  (* first exchange *)
  destruct (exchange ps a (S d)) as (ps1 & HP1f & HP1s & Hc1).
  { eapply Permutation_in; [exact Hperm|]. simpl; auto. }
  { intros w Hw. apply (Permutation_in _ (Permutation_sym Hperm)) in Hw.
    destruct Hw as [<-|Hw]; [lia|]. rewrite Forall_forall in Hfa. auto. }
  { eapply Permutation_in; [symmetry; exact HPd|]. simpl; auto. }
  { rewrite Forall_forall in HFd. auto. }
  assert (HPw1 : Permutation (b :: rest) (map fst ps1)).
  { apply Permutation_cons_inv with (a := a). rewrite Hperm. exact HP1f. }
  assert (HPd1 : Permutation (S d :: ds') (map snd ps1)).
  { apply Permutation_cons_inv with (a := S d). rewrite <- HPd. exact HP1s. }
  (* second exchange *)
  destruct (exchange ps1 b (S d)) as (ps2 & HP2f & HP2s & Hc2).
  { eapply Permutation_in; [exact HPw1|]. simpl; auto. }
  { intros w Hw. apply (Permutation_in _ (Permutation_sym HPw1)) in Hw.
    destruct Hw as [<-|Hw]; [lia|]. rewrite Forall_forall in Hfb. auto. }
  { eapply Permutation_in; [exact HPd1|]. simpl; auto. }
  { intros x Hx. rewrite Forall_forall in HFd. apply HFd.
    eapply Permutation_in; [symmetry; exact HP1s|]. right; exact Hx. }
  assert (HPw2 : Permutation rest (map fst ps2)).
  { apply Permutation_cons_inv with (a := b). rewrite HPw1. exact HP2f. }
  assert (HPd2 : Permutation ds' (map snd ps2)).
  { apply Permutation_cons_inv with (a := S d). rewrite HPd1. exact HP2s. }
  (* merged problem *)
  set (ps'' := (a + b, d) :: ps2).
  assert (Hlen2 : length ps'' = n).
  { unfold ps''. simpl.
    assert (length ps = S (length ps1)).
    { rewrite <- (map_length fst ps), (Permutation_length HP1f). simpl. now rewrite map_length. }
    assert (length ps1 = S (length ps2)).
    { rewrite <- (map_length fst ps1), (Permutation_length HP2f). simpl. now rewrite map_length. }
    lia. }
  specialize (IH ps'' (insert (a + b) rest) Hlen2).
  assert (Hgoal : hcost n (insert (a + b) rest) <= cost ps'').
  { apply IH.
    - unfold ps''. simpl. eapply real_perm; [|exact HRd]. constructor. exact HPd2.
    - unfold ps''. simpl. rewrite insert_perm. constructor. exact HPw2.
    - apply insert_sorted. assumption. }
  unfold ps'' in Hgoal. rewrite cost_cons in Hgoal. simpl in Hgoal. nia.
Qed.

