(** The Huffman container's round trip at every alignment (C06), RELATIVE to the decode tables
    answering code words correctly ([tab_ok (dtab h) (codes (enc h))]): whatever partial byte the
    previous item left, pushing covered symbols and decoding the returned bit range yields exactly
    the pushed symbols -- including empty items, items inside one byte, and items spanning many. *)
From FC Require Import Base.Res Region.Region Huffman.Huffman Huffman.Bits Huffman.BitIter Huffman.EncoderOk Huffman.DecoderOk.
From Coq Require Import Lia.
Set Implicit Arguments.
Local Open Scope nat_scope.

Definition codes (e : list (sym * (nat * N))) : list (sym * list bool) :=
  map (fun sc : sym * (nat * N) => (fst sc, bits_of (fst (snd sc)) (snd (snd sc)))) e.

Lemma lookup_code_in s e l c : lookup_code s e = Some (l, c) -> In (s, bits_of l c) (codes e).
Proof.
  induction e as [|[k [l' c']] e IH]; cbn; [discriminate|].
  destruct (N.eqb_spec k s) as [->|Hne].
  - intros H. inversion H; subst. left. reflexivity.
  - intros H. right. apply IH. exact H.
Qed.

Lemma covered_codes e syms : covered e syms -> Forall2 (fun s w => In (s, w) (codes e)) syms (map (cw e) syms).
Proof.
  induction 1 as [|s syms (l & c & Hl & _) _ IH]; cbn [map]; constructor; [|exact IH].
  unfold cw. rewrite Hl. apply lookup_code_in. exact Hl.
Qed.

Theorem huffman_roundtrip h bytes bits syms : wfst bytes bits -> covered (enc h) syms ->
  tab_ok (dtab h) (codes (enc h)) ->
  exists bytes' bits', push_symbols h bytes bits syms = Ok (bytes', bits', (bits, bits')) /\
    wfst bytes' bits' /\ decode_range h bytes' bits bits' = Ok syms.
Proof.
  intros Hwf Hcov Hok.
  destruct (@push_symbols_spec h bytes bits syms Hwf Hcov) as (b2 & n2 & Hp & Hwf2 & Hvb & Hn2).
  exists b2, n2. split; [exact Hp|]. split; [exact Hwf2|].
  destruct Hwf as (Hb1 & _ & _). destruct Hwf2 as (Hb2 & Hlt2 & Hsm2).
  apply (@decode_range_spec h (codes (enc h)) b2 bits n2 syms (map (cw (enc h)) syms) Hok (covered_codes Hcov)); [lia|lia|].
  (* the bits [bits, n2) of the new string are the appended code words *)
  unfold vb in Hvb.
  rewrite <- skipn_firstn_swap. replace (bits + (n2 - bits)) with n2 by lia.
  rewrite Hvb, skipn_app, firstn_length, bitstr_length, Nat.min_l by lia.
  rewrite skipn_all2 by (rewrite firstn_length, bitstr_length; lia).
  rewrite Nat.sub_diag. reflexivity.
Qed.
