(** [HuffmanContainer<B>] (src/impls/huffman_container.rs), executable and word-level:
    [create_from] (BinaryHeap with the derived [Ord] on [(i64, Node)], tree vector, DFS levels,
    stable sort, canonical codes, nested 256-entry decode tables), the u64 encoder register,
    [push_symbols] (peel and re-emit of the trailing partial byte), [BitIterator], the u16 decoder
    register with its table walk, raw mode, [merge_regions], [clear].  Symbols are [N]. *)
From FC Require Import Base.Res Region.Region.
From Coq Require Import ZArith.
Set Implicit Arguments.
Local Open Scope N_scope.

Definition sym := N.
Definition W64 : N := 2 ^ 64.

(** * tree construction *)
Inductive node := Leaf (s : sym) | Fork (l r : nat).

(** derived [Ord]: Leaf < Fork, then fields *)
Definition node_cmp (a b : node) : comparison :=
  match a, b with
  | Leaf x, Leaf y => N.compare x y
  | Leaf _, Fork _ _ => Lt
  | Fork _ _, Leaf _ => Gt
  | Fork a1 a2, Fork b1 b2 => match Nat.compare a1 b1 with Eq => Nat.compare a2 b2 | c => c end
  end.
Definition ent := (Z * node)%type.
Definition ent_cmp (a b : ent) : comparison :=
  match Z.compare (fst a) (fst b) with Eq => node_cmp (snd a) (snd b) | c => c end.

(** [BinaryHeap::pop]: the maximum under [ent_cmp] (a total order on distinct entries, so the pop
    order does not depend on the heap's internal layout) *)
Fixpoint max_ent (best : ent) (l : list ent) : ent :=
  match l with [] => best | x :: l' => max_ent (match ent_cmp x best with Gt => x | _ => best end) l' end.
Fixpoint remove_ent (x : ent) (l : list ent) : list ent :=
  match l with [] => [] | y :: l' => match ent_cmp x y with Eq => l' | _ => y :: remove_ent x l' end end.
Definition pop_max (h : list ent) : option (ent * list ent) :=
  match h with [] => None | x :: l => let m := max_ent x l in Some (m, remove_ent m h) end.

Fixpoint build (fuel : nat) (heap : list ent) (tree : list node) : list node :=
  match fuel with
  | O => tree
  | S f =>
    match pop_max heap with
    | None => tree
    | Some (e1, h1) =>
      match pop_max h1 with
      | None => tree ++ [snd e1]
      | Some (e2, h2) =>
        let fork := Fork (length tree) (S (length tree)) in
        build f ((fst e1 + fst e2, fork)%Z :: h2) (tree ++ [snd e1; snd e2])
      end
    end
  end.

(** DFS with an explicit stack (head = top): pops the right child first *)
Fixpoint dfs (fuel : nat) (tree : list node) (todo : list (nat * nat)) (acc : list (nat * sym)) : list (nat * sym) :=
  match fuel with
  | O => acc
  | S f =>
    match todo with
    | [] => acc
    | (ni, lvl) :: rest =>
      match nth ni tree (Leaf 0) with
      | Leaf s => dfs f tree rest (acc ++ [(lvl, s)])
      | Fork l r => dfs f tree ((r, S lvl) :: (l, S lvl) :: rest) acc
      end
    end
  end.

(** [sort_by] level, stable *)
Fixpoint ins_level (x : nat * sym) (l : list (nat * sym)) : list (nat * sym) :=
  match l with [] => [x] | y :: l' => if (fst x <? fst y)%nat then x :: l else y :: ins_level x l' end.
Definition sort_levels (l : list (nat * sym)) := fold_left (fun acc x => ins_level x acc) l [].

Definition levels_of (counts : list (sym * Z)) : list (nat * sym) :=
  let heap := map (fun sc : sym * Z => ((- snd sc)%Z, Leaf (fst sc))) counts in
  let tree := build (length counts) heap [] in
  let lv := dfs (2 * length tree + 1) tree [((length tree - 1)%nat, 0%nat)] [] in
  let lv := sort_levels lv in
  match lv with [(_, s)] => [(1%nat, s)] | _ => lv end.   (* a lone symbol gets one bit *)

(** * decode tables *)
Inductive dec := Void | Sym (s : sym) (b : nat) | Further (m : list dec).
Definition void_map : list dec := repeat Void 256.

Fixpoint set_nth {A} (l : list A) (i : nat) (x : A) : list A :=
  match l, i with
  | [], _ => []
  | _ :: l', O => x :: l'
  | y :: l', S i' => y :: set_nth l' i' x
  end.
Fixpoint set_range {A} (l : list A) (i n : nat) (x : A) : list A :=
  match n with O => l | S n' => set_range (set_nth l i x) (S i) n' x end.

(** [insert_decode]; [code] is left-aligned in 64 bits *)
Fixpoint insert_decode (fuel : nat) (map : list dec) (s : sym) (bits : nat) (code : N) : list dec :=
  match fuel with
  | O => map
  | S f =>
    let byte := N.to_nat (code / 2 ^ 56) in
    if (bits <=? 8)%nat then set_range map byte (2 ^ (8 - bits)) (Sym s bits)
    else
      match nth byte map Void with
      | Void => set_nth map byte (Further (insert_decode f void_map s (bits - 8) ((code * 256) mod W64)))
      | Further m => set_nth map byte (Further (insert_decode f m s (bits - 8) ((code * 256) mod W64)))
      | Sym _ _ => map
      end
  end.

Record huff := { enc : list (sym * (nat * N)); dtab : list dec }.

Definition code_step (single : bool) (acc : N * nat * list (sym * (nat * N)) * list dec) (ls : nat * sym) :=
  let '(code, prev, e, d) := acc in
  let level := fst ls in let s := snd ls in
  let code := if (prev =? level)%nat then code else (code * 2 ^ N.of_nat (level - prev)) mod W64 in
  let d := insert_decode 9 d s level ((code * 2 ^ N.of_nat (64 - level)) mod W64) in
  let d := if single then insert_decode 9 d s level (((code + 1) * 2 ^ N.of_nat (64 - level)) mod W64) else d in
  (code + 1, level, e ++ [(s, (level, code))], d).

Definition create_from (counts : list (sym * Z)) : huff :=
  match counts with
  | [] => {| enc := []; dtab := void_map |}
  | _ =>
    let lv := levels_of counts in
    let single := match lv with [_] => true | _ => false end in
    let '(_, _, e, d) := fold_left (code_step single) lv (0, 0%nat, [], void_map) in
    {| enc := e; dtab := d |}
  end.

Fixpoint lookup_code (s : sym) (e : list (sym * (nat * N))) : option (nat * N) :=
  match e with [] => None | (k, v) :: e' => if k =? s then Some v else lookup_code s e' end.

(** * encoder: u64 register *)
Inductive eout := EByte (b : N) | EPart (b : N) (n : nat).

Fixpoint flush (fuel : nat) (pb : N) (pn : nat) (acc : list eout) : N * nat * list eout :=
  match fuel with
  | O => (pb, pn, acc)
  | S f => if (8 <=? pn)%nat
           then flush f (pb mod 2 ^ N.of_nat (pn - 8)) (pn - 8) (acc ++ [EByte ((pb / 2 ^ N.of_nat (pn - 8)) mod 256)])
           else (pb, pn, acc)
  end.

Fixpoint encode (e : list (sym * (nat * N))) (syms : list sym) (pb : N) (pn : nat) (acc : list eout) : res (list eout) :=
  match syms with
  | [] => Ok (if (0 <? pn)%nat then acc ++ [EPart ((pb * 2 ^ N.of_nat (8 - pn)) mod 256) pn] else acc)
  | s :: syms' =>
    match lookup_code s e with
    | None => Panic                                   (* encode.get(symbol).unwrap() *)
    | Some (bits, code) =>
      let pb := ((pb * 2 ^ N.of_nat bits) mod W64) + code in
      let pn := (pn + bits)%nat in
      let '(pb, pn, acc) := flush 9 pb pn acc in
      encode e syms' pb pn acc
    end
  end.

(** [push_symbols] *)
Definition emit (acc : list N * nat) (o : eout) : list N * nat :=
  match o with EByte b => (fst acc ++ [b], (snd acc + 8)%nat) | EPart b k => (fst acc ++ [b], (snd acc + k)%nat) end.
Definition push_symbols (h : huff) (bytes : list N) (bits : nat) (syms : list sym) : res (list N * nat * (nat * nat)) :=
  let start := bits in
  let bits0 := (bits - bits mod 8)%nat in
  let k := (start mod 8)%nat in
  let bytes0 := if (k =? 0)%nat then bytes else removelast bytes in
  let init := if (k =? 0)%nat then (0, 0%nat) else (last bytes 0 / 2 ^ N.of_nat (8 - k), k) in
  let* outs := encode (enc h) syms (fst init) (snd init) [] in
  let r := fold_left emit outs (bytes0, bits0) in
  Ok (fst r, snd r, (start, snd r)).

(** * BitIterator *)
Fixpoint bit_chunks (fuel : nat) (bytes : list N) (lo hi : nat) : res (list (N * nat)) :=
  match fuel with
  | O => Ok []
  | S f =>
    if (lo <? hi)%nat then
      match nth_error bytes (lo / 8) with
      | None => Panic                                (* self.bytes[..] out of bounds *)
      | Some byte =>
        let bits := Nat.min (hi - lo) (8 - lo mod 8) in
        let b := (byte / 2 ^ N.of_nat (8 - lo mod 8 - bits)) mod 2 ^ N.of_nat bits in
        let* r := bit_chunks f bytes (lo + bits) hi in Ok ((b, bits) :: r)
      end
    else Ok []
  end.

(** * Decoder: u16 register, table walk *)
Record dst := { chunks : list (N * nat); pbyte : N; pbits : nat }.

Definition restock (d : dst) : dst :=
  if (pbits d <? 8)%nat then
    match chunks d with
    | (b, n) :: cs => {| chunks := cs; pbyte := (pbyte d * 2 ^ N.of_nat n) mod 2 ^ 16 + b; pbits := (pbits d + n)%nat |}
    | [] => d
    end
  else d.

Inductive wstep := SSym (s : sym) (d : dst) | SEnd | SPanic.

Fixpoint walk (fuel : nat) (map : list dec) (d : dst) : wstep :=
  match fuel with
  | O => SPanic
  | S f =>
    let d := restock d in
    if (pbits d =? 0)%nat then SEnd
    else if (pbits d <? 8)%nat then
      let byte := N.to_nat ((pbyte d * 2 ^ N.of_nat (8 - pbits d)) mod 2 ^ 16) in
      match nth byte map Void with
      | Void => SPanic
      | Further _ => SPanic
      | Sym s b => if (b <=? pbits d)%nat
                   then SSym s {| chunks := chunks d; pbyte := pbyte d mod 2 ^ N.of_nat (pbits d - b); pbits := (pbits d - b)%nat |}
                   else SPanic
      end
    else
      let byte := N.to_nat (pbyte d / 2 ^ N.of_nat (pbits d - 8)) in
      match nth byte map Void with
      | Void => SPanic
      | Sym s b => SSym s {| chunks := chunks d; pbyte := pbyte d mod 2 ^ N.of_nat (pbits d - b); pbits := (pbits d - b)%nat |}
      | Further m => walk f m {| chunks := chunks d; pbyte := pbyte d mod 2 ^ N.of_nat (pbits d - 8); pbits := (pbits d - 8)%nat |}
      end
  end.

Fixpoint decode_all (fuel : nat) (map : list dec) (d : dst) (acc : list sym) : res (list sym) :=
  match fuel with
  | O => Panic   (* an item of n bits holds at most n symbols: running out of fuel means divergence *)
  | S f => match walk 10 map d with
           | SSym s d' => decode_all f map d' (acc ++ [s])
           | SEnd => Ok acc
           | SPanic => Panic
           end
  end.

Definition decode_range (h : huff) (bytes : list N) (lo hi : nat) : res (list sym) :=
  let* cs := bit_chunks (hi - lo + 1) bytes lo hi in
  let d0 := match cs with (b, n) :: cs' => {| chunks := cs'; pbyte := b; pbits := n |} | [] => {| chunks := []; pbyte := 0; pbits := 0%nat |} end in
  decode_all (hi - lo + 2) (dtab h) d0 [].

(** * the container *)
Inductive hinner := HEnc (h : huff) (bytes : list N) (bits : nat) | HRaw (raw : list sym).
Definition hstate : Type := hinner * list (sym * Z).        (* BTreeMap<B, i64>: sorted by symbol *)

Fixpoint stat_add (s : sym) (c : Z) (m : list (sym * Z)) : list (sym * Z) :=
  match m with
  | [] => [(s, c)]
  | (k, v) :: m' => match N.compare s k with
                    | Lt => (s, c) :: m
                    | Eq => (k, (v + c)%Z) :: m'
                    | Gt => (k, v) :: stat_add s c m'
                    end
  end.
Definition count_syms (m : list (sym * Z)) (l : list sym) := fold_left (fun m s => stat_add s 1%Z m) l m.

Definition huffman_region : Region := {|
  val := list sym; idx := nat * nat; st := hstate;
  dflt := (HRaw [], []);
  push := fun x v =>
    let stats := count_syms (snd x) v in
    match fst x with
    | HEnc h bytes bits => let* '(b', n', ix) := push_symbols h bytes bits v in Ok ((HEnc h b' n', stats), ix)
    | HRaw raw => Ok ((HRaw (raw ++ v), stats), (length raw, (length raw + length v)%nat))
    end;
  read := fun x i =>
    match fst x with
    | HEnc h bytes _ => decode_range h bytes (fst i) (snd i)
    | HRaw raw => sub raw (fst i) (snd i)
    end;
  clear := fun x => (HRaw [], []);
  merge := fun l =>
    let counts := fold_left (fun m (sc : sym * Z) => stat_add (fst sc) (snd sc) m) (flat_map (fun x : hstate => snd x) l) [] in
    (HEnc (create_from counts) [] 0, []);
|}.
