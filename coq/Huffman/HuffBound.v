(** The hypothesis [mergeable] of the Huffman region contract, discharged by a bound on the statistics:
    a container merged from regions that counted fewer than 1 548 008 755 920 symbols in total
    (G(58) = Fib(60)) has code lengths of at most 57 bits.  With it, C06 holds without any hypothesis
    for every container whose source regions saw fewer than 1.5 * 10^12 symbols. *)
From FC Require Import Base.Res Region.Region Huffman.Huffman Huffman.HuffTree Huffman.HuffDepth Huffman.HuffRegion.
From Coq Require Import Lia ZArith.
Set Implicit Arguments.

(** G in binary arithmetic *)
Fixpoint gpair (n : nat) : N * N :=
  match n with 0 => (1, 2)%N | S m => let p := gpair m in (snd p, (fst p + snd p)%N) end.
Lemma gpair_spec n : N.of_nat (G n) = fst (gpair n) /\ N.of_nat (G (S n)) = snd (gpair n).
Proof.
  induction n as [|n [IH1 IH2]]; [split; reflexivity|]. cbn [gpair fst snd]. split; [exact IH2|].
  rewrite G_SS, Nat2N.inj_add, IH1, IH2. lia.
Qed.
Lemma G58 : N.of_nat (G 58) = 1548008755920%N.
Proof. rewrite (proj1 (gpair_spec 58)). vm_compute. reflexivity. Qed.

Lemma merged_counts_pos l : Forall (fun x : hstate => spos (snd x)) l ->
  Forall (fun sc : sym * Z => (1 <= snd sc)%Z) (merged_counts l).
Proof.
  intros Hl. unfold merged_counts.
  assert (Hall : Forall (fun sc : sym * Z => (1 <= snd sc)%Z) (flat_map (fun x : hstate => snd x) l)).
  { induction Hl as [|x l Hx _ IH]; [constructor|]. cbn [flat_map]. apply Forall_app. split; [|assumption].
    eapply Forall_impl; [|exact Hx]. cbn. intros a Ha. lia. }
  set (es := flat_map (fun x : hstate => snd x) l) in *. clearbody es.
  assert (H : forall m, Forall (fun sc : sym * Z => (1 <= snd sc)%Z) m ->
    Forall (fun sc : sym * Z => (1 <= snd sc)%Z) (fold_left (fun m (sc : sym * Z) => stat_add (fst sc) (snd sc) m) es m)).
  { induction Hall as [|[k c] es Hc _ IH]; intros m Hm; [exact Hm|]. cbn [fold_left fst snd] in *. apply IH.
    apply (@stat_add_pos (fun a => (1 <= a)%Z)); [intros; lia|exact Hc|exact Hm]. }
  apply H. constructor.
Qed.

(** ** [mergeable] from a bound on the statistics *)
Theorem small_stats_mergeable l : Forall inv l ->
  (N.of_nat (total_count (merged_counts l)) < 1548008755920)%N -> mergeable l.
Proof.
  intros Hl Htot. cbn [mergeable huffman_spec]. unfold bound.
  apply small_total_short_codes.
  - apply merged_counts_pos. eapply Forall_impl; [|exact Hl]. intros x [Hx _]. exact Hx.
  - rewrite <- G58 in Htot. lia.
Qed.
