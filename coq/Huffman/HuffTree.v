(** The code lengths computed by the model of [Huffman::create_from] are those of a Huffman tree:
    their cost on the merged statistics is the greedy cost [hcost], which [HuffOpt.huffman_optimal]
    shows to be a lower bound for every prefix code.  The proof abstracts the array-based tree
    (heap of [(−count, node)] entries over a growing node vector) to inductive trees. *)
From FC Require Import Base.Res Huffman.Huffman Huffman.HuffOpt.
From Coq Require Import ZArith Permutation Sorted Lia.
Set Implicit Arguments.
Local Open Scope nat_scope.

(** * abstract trees *)
Inductive tree := TLeaf (s : sym) (w : nat) | TNode (l r : tree).

Fixpoint weight (t : tree) : nat :=
  match t with TLeaf _ w => w | TNode l r => weight l + weight r end.
(** leaves with their depths, right subtree first (the order the stack-based DFS visits them) *)
Fixpoint flat_rl (t : tree) (lvl : nat) : list (nat * sym) :=
  match t with TLeaf s _ => [(lvl, s)] | TNode l r => flat_rl r (S lvl) ++ flat_rl l (S lvl) end.
(** weight/depth pairs and the cost: sum over leaves of weight * depth *)
Fixpoint wd (t : tree) (lvl : nat) : list (nat * nat) :=
  match t with TLeaf _ w => [(w, lvl)] | TNode l r => wd r (S lvl) ++ wd l (S lvl) end.
Definition tcost (t : tree) (lvl : nat) : nat := cost (wd t lvl).
Fixpoint nodes (t : tree) : nat := match t with TLeaf _ _ => 1 | TNode l r => S (nodes l + nodes r) end.
Fixpoint leaves (t : tree) : nat := match t with TLeaf _ _ => 1 | TNode l r => leaves l + leaves r end.

Lemma nodes_leaves t : nodes t + 1 = 2 * leaves t.
Proof. induction t; cbn; lia. Qed.

Lemma tcost_S t lvl : tcost t (S lvl) = tcost t lvl + weight t.
Proof.
  unfold tcost. revert lvl. induction t as [s w|l IHl r IHr]; intros lvl; cbn [wd weight].
  - unfold cost. cbn. lia.
  - rewrite !cost_app, IHl, IHr. lia.
Qed.
Lemma tcost_node l r lvl : tcost (TNode l r) lvl = tcost l lvl + tcost r lvl + weight l + weight r.
Proof. unfold tcost at 1. cbn [wd]. rewrite cost_app. fold (tcost r (S lvl)) (tcost l (S lvl)). rewrite !tcost_S. lia. Qed.

(** * a node of the vector represents an abstract tree *)
Inductive Rep (tv : list node) : node -> tree -> Prop :=
| RepLeaf s w : Rep tv (Leaf s) (TLeaf s w)
| RepFork l r nl nr tl tr : nth_error tv l = Some nl -> nth_error tv r = Some nr ->
    Rep tv nl tl -> Rep tv nr tr -> Rep tv (Fork l r) (TNode tl tr).

Lemma Rep_app tv x nd t : Rep tv nd t -> Rep (tv ++ x) nd t.
Proof.
  induction 1 as [|l r nl nr tl tr Hl Hr _ IHl _ IHr]; [constructor|].
  econstructor; eauto; rewrite nth_error_app1; auto; apply nth_error_Some; congruence.
Qed.

(** * the DFS computes [flat_rl] *)
Lemma dfs_spec tv : forall fuel todo ts acc,
  Forall2 (fun (p : nat * nat) t => exists nd, nth_error tv (fst p) = Some nd /\ Rep tv nd t) todo ts ->
  list_sum (map nodes ts) < fuel ->
  dfs fuel tv todo acc = acc ++ concat (map (fun pt : (nat * nat) * tree => flat_rl (snd pt) (snd (fst pt))) (combine todo ts)).
Proof.
  induction fuel as [|fuel IH]; intros todo ts acc HF Hfuel; [lia|].
  destruct HF as [|[ni lvl] t todo ts (nd & Hn & Hr) HF]; cbn [dfs combine map concat].
  - now rewrite app_nil_r.
  - rewrite (nth_error_nth tv ni (Leaf 0%N) Hn). cbn [fst snd] in *.
    inversion Hr as [s w|l r nl nr tl tr Hl Hrr Rl Rr]; subst.
    + rewrite (IH todo ts (acc ++ [(lvl, s)])); [|assumption|simpl in Hfuel; lia].
      cbn. rewrite <- app_assoc. reflexivity.
    + rewrite (IH ((r, S lvl) :: (l, S lvl) :: todo) (tr :: tl :: ts) acc).
      * cbn [combine map concat fst snd flat_rl]. rewrite <- !app_assoc. reflexivity.
      * constructor; [exists nr; auto|]. constructor; [exists nl; auto|assumption].
      * simpl in *. lia.
Qed.

(** * sorted lists *)
Definition isort (l : list nat) : list nat := fold_right insert [] l.
Lemma isort_perm l : Permutation (isort l) l.
Proof. induction l as [|x l IH]; cbn; [reflexivity|]. rewrite insert_perm. constructor. exact IH. Qed.
Lemma isort_sorted l : StronglySorted le (isort l).
Proof. induction l as [|x l IH]; cbn; [constructor|]. apply insert_sorted. exact IH. Qed.

Lemma sorted_perm_eq l : forall m, StronglySorted le l -> StronglySorted le m -> Permutation l m -> l = m.
Proof.
  induction l as [|a l IH]; intros m Hl Hm HP.
  - apply Permutation_nil in HP. now subst.
  - destruct m as [|b m]; [apply Permutation_sym, Permutation_nil in HP; discriminate|].
    inversion Hl as [|? ? Hl' Ha]; subst. inversion Hm as [|? ? Hm' Hb]; subst.
    assert (a = b).
    { assert (In a (b :: m)) by (eapply Permutation_in; [exact HP|left; reflexivity]).
      assert (In b (a :: l)) by (eapply Permutation_in; [symmetry; exact HP|left; reflexivity]).
      rewrite Forall_forall in Ha, Hb. destruct H as [->|H]; [reflexivity|]. destruct H0 as [->|H0]; [reflexivity|].
      specialize (Ha b H0). specialize (Hb a H). lia. }
    subst b. f_equal. apply IH; [assumption|assumption|]. eapply Permutation_cons_inv; eauto.
Qed.

(** * the heap phase *)
Definition wt (e : ent) : nat := Z.to_nat (- fst e).

(** a heap entry represents a tree of the entry's weight *)
Definition ent_ok (tv : list node) (e : ent) (t : tree) : Prop :=
  Rep tv (snd e) t /\ fst e = (- Z.of_nat (weight t))%Z.

(** [max_ent] returns a member, maximal for [ent_cmp], hence of minimal weight *)
Lemma max_ent_in l : forall best, In (max_ent best l) (best :: l).
Proof.
  induction l as [|x l IH]; intros best; cbn [max_ent]; [left; reflexivity|].
  destruct (ent_cmp x best); specialize (IH best) as IHb; specialize (IH x) as IHx; cbn in *; tauto.
Qed.
Lemma ent_cmp_fst a b : ent_cmp a b <> Gt -> (fst a <= fst b)%Z.
Proof.
  unfold ent_cmp. destruct (Z.compare_spec (fst a) (fst b)) as [E|E|E]; try lia. intros Hc; exfalso; apply Hc; reflexivity.
Qed.
Lemma ent_cmp_gt_fst a b : ent_cmp a b = Gt -> (fst b <= fst a)%Z.
Proof. unfold ent_cmp. destruct (Z.compare_spec (fst a) (fst b)) as [E|E|E]; try lia; discriminate. Qed.
Lemma max_ent_max l : forall best x, In x (best :: l) -> (fst x <= fst (max_ent best l))%Z.
Proof.
  induction l as [|y l IH]; intros best x Hx; cbn [max_ent].
  - destruct Hx as [->|[]]. lia.
  - destruct (ent_cmp y best) eqn:E.
    + destruct Hx as [->|[->|Hx]]; [apply IH; left; reflexivity| |apply IH; right; assumption].
      transitivity (fst best); [apply ent_cmp_fst; congruence|apply IH; left; reflexivity].
    + destruct Hx as [->|[->|Hx]]; [apply IH; left; reflexivity| |apply IH; right; assumption].
      transitivity (fst best); [apply ent_cmp_fst; congruence|apply IH; left; reflexivity].
    + apply ent_cmp_gt_fst in E.
      destruct Hx as [->|[->|Hx]]; [|apply IH; left; reflexivity|apply IH; right; assumption].
      transitivity (fst y); [assumption|apply IH; left; reflexivity].
Qed.

(** removing one occurrence (the first equal under [ent_cmp]); with it the aligned tree *)
Fixpoint remove_pair (x : ent) (l : list ent) (ts : list tree) : list ent * list tree * option tree :=
  match l, ts with
  | y :: l', t :: ts' =>
      match ent_cmp x y with
      | Eq => (l', ts', Some t)
      | _ => let '(a, b, c) := remove_pair x l' ts' in (y :: a, t :: b, c)
      end
  | _, _ => (l, ts, None)
  end.
Lemma remove_pair_fst x l : forall ts, length l = length ts -> fst (fst (remove_pair x l ts)) = remove_ent x l.
Proof.
  induction l as [|y l IH]; intros [|t ts] Hl; cbn in *; try discriminate; try reflexivity.
  destruct (ent_cmp x y); try reflexivity; specialize (IH ts); destruct (remove_pair x l ts) as [[a b] c]; cbn in *; rewrite IH by lia; reflexivity.
Qed.

(** equality under [ent_cmp] is equality *)
Lemma node_cmp_eq a b : node_cmp a b = Eq -> a = b.
Proof.
  destruct a as [x|a1 a2], b as [y|b1 b2]; cbn; try discriminate.
  - intros Hc. apply N.compare_eq in Hc. congruence.
  - destruct (Nat.compare_spec a1 b1) as [E|E|E]; try discriminate. intros Hc. apply Nat.compare_eq in Hc. congruence.
Qed.
Lemma ent_cmp_eq a b : ent_cmp a b = Eq -> a = b.
Proof.
  unfold ent_cmp. destruct (Z.compare_spec (fst a) (fst b)) as [E|E|E]; try discriminate.
  intros Hn. apply node_cmp_eq in Hn. destruct a, b; cbn in *; congruence.
Qed.
Lemma ent_cmp_refl a : ent_cmp a a = Eq.
Proof.
  unfold ent_cmp. rewrite Z.compare_refl. destruct (snd a) as [x|l r]; cbn; [apply N.compare_refl|].
  rewrite !Nat.compare_refl. reflexivity.
Qed.

(** popping from an aligned forest: the popped tree has minimal weight and the rest stays aligned *)
Lemma pop_aligned tv h ts : Forall2 (ent_ok tv) h ts -> h <> [] ->
  exists e t h' ts', pop_max h = Some (e, h') /\ ent_ok tv e t /\ Forall2 (ent_ok tv) h' ts' /\
    Permutation ts (t :: ts') /\ Forall (fun u => weight t <= weight u) ts.
Proof.
  intros HF Hne. destruct h as [|x l]; [congruence|]. cbn [pop_max].
  set (m := max_ent x l).
  assert (Hin : In m (x :: l)) by apply max_ent_in.
  assert (Hmax : forall y, In y (x :: l) -> (fst y <= fst m)%Z) by (intros y Hy; apply max_ent_max; exact Hy).
  (* remove m together with its tree *)
  assert (G : forall h ts, Forall2 (ent_ok tv) h ts -> In m h ->
            exists t ts', ent_ok tv m t /\ Forall2 (ent_ok tv) (remove_ent m h) ts' /\ Permutation ts (t :: ts')).
  { clear. induction 1 as [|y t h ts Hy HF IH]; intros Hin; [destruct Hin|].
    cbn [remove_ent]. destruct (ent_cmp m y) eqn:E.
    - apply ent_cmp_eq in E. subst y. exists t, ts. auto.
    - destruct Hin as [->|Hin]; [rewrite ent_cmp_refl in E; discriminate|].
      destruct (IH Hin) as (t0 & ts' & H1 & H2 & H3). exists t0, (t :: ts'). split; [assumption|]. split; [constructor; assumption|].
      rewrite H3. apply perm_swap.
    - destruct Hin as [->|Hin]; [rewrite ent_cmp_refl in E; discriminate|].
      destruct (IH Hin) as (t0 & ts' & H1 & H2 & H3). exists t0, (t :: ts'). split; [assumption|]. split; [constructor; assumption|].
      rewrite H3. apply perm_swap. }
  destruct (G _ _ HF Hin) as (t & ts' & Hm & Hrest & HP).
  exists m, t, (remove_ent m (x :: l)), ts'. split; [reflexivity|]. split; [assumption|]. split; [assumption|]. split; [assumption|].
  (* minimal weight *)
  rewrite Forall_forall. intros u Hu.
  assert (exists y, In y (x :: l) /\ ent_ok tv y u).
  { clear - HF Hu. induction HF as [|y t0 h ts0 Hy HF IH]; [destruct Hu|].
    destruct Hu as [->|Hu]; [exists y; split; [left; reflexivity|assumption]|].
    destruct (IH Hu) as (z & Hz & Hok). exists z. split; [right; assumption|assumption]. }
  destruct H as (y & Hy & [_ Hwy]). destruct Hm as [_ Hwm]. specialize (Hmax y Hy). lia.
Qed.

(** the greedy cost of a forest: what merging it costs from here on *)
Definition fcost (ts : list tree) : nat := hcost (length ts) (isort (map weight ts)).

Lemma hcost_step a b rest n : length (a :: b :: rest) = S n ->
  hcost (S n) (a :: b :: rest) = a + b + hcost n (insert (a + b) rest).
Proof. reflexivity. Qed.

Lemma fcost_merge t1 t2 ts : Forall (fun u => weight t1 <= weight u) (t2 :: ts) ->
  Forall (fun u => weight t2 <= weight u) ts ->
  fcost (t1 :: t2 :: ts) = weight t1 + weight t2 + fcost (TNode t1 t2 :: ts).
Proof.
  intros H1 H2. unfold fcost. cbn [length map weight].
  assert (Hs : isort (weight t1 :: weight t2 :: map weight ts) = weight t1 :: weight t2 :: isort (map weight ts)).
  { apply sorted_perm_eq; [apply isort_sorted| |rewrite isort_perm; do 2 constructor; symmetry; apply isort_perm].
    constructor; [constructor; [apply isort_sorted|]|].
    - rewrite Forall_forall. intros x Hx. apply (Permutation_in _ (isort_perm _)) in Hx.
      apply in_map_iff in Hx. destruct Hx as (u & <- & Hu). rewrite Forall_forall in H2. auto.
    - inversion H1; subst. constructor; [assumption|].
      rewrite Forall_forall. intros x Hx. apply (Permutation_in _ (isort_perm _)) in Hx.
      apply in_map_iff in Hx. destruct Hx as (u & <- & Hu). rewrite Forall_forall in H4. auto. }
  rewrite Hs. cbn [hcost]. reflexivity.
Qed.

(** * the heap loop builds one tree whose cost is the forest's cost plus its greedy merge cost *)
Fixpoint lsw (t : tree) : list (sym * nat) :=
  match t with TLeaf s w => [(s, w)] | TNode l r => lsw r ++ lsw l end.
Definition sum_tcost (ts : list tree) : nat := list_sum (map (fun t => tcost t 0) ts).
Lemma Permutation_list_sum_nat l l' : Permutation l l' -> list_sum l = list_sum l'.
Proof. induction 1; simpl; lia. Qed.

Lemma fcost_perm ts ts' : Permutation ts ts' -> fcost ts = fcost ts'.
Proof.
  intros HP. unfold fcost. rewrite (Permutation_length HP). f_equal.
  apply sorted_perm_eq; try apply isort_sorted.
  rewrite !isort_perm. apply Permutation_map. exact HP.
Qed.
Lemma sum_tcost_perm ts ts' : Permutation ts ts' -> sum_tcost ts = sum_tcost ts'.
Proof.
  intros HP. unfold sum_tcost. apply Permutation_list_sum_nat. apply Permutation_map. exact HP.
Qed.
Lemma lsw_perm ts ts' : Permutation ts ts' -> Permutation (concat (map lsw ts)) (concat (map lsw ts')).
Proof.
  induction 1; cbn; auto.
  - apply Permutation_app_head. assumption.
  - rewrite !app_assoc. apply Permutation_app_tail. apply Permutation_app_comm.
  - etransitivity; eauto.
Qed.

Lemma Forall2_ent_ok_app tv x h ts : Forall2 (ent_ok tv) h ts -> Forall2 (ent_ok (tv ++ x)) h ts.
Proof. induction 1 as [|e t h ts [Hr Hw] _ IH]; constructor; [split; [apply Rep_app; assumption|assumption]|assumption]. Qed.

Lemma Forall2_length {A B} (R : A -> B -> Prop) l m : Forall2 R l m -> length l = length m.
Proof. induction 1; simpl; congruence. Qed.
Lemma Forall2_nil_r {A B} (R : A -> B -> Prop) l : Forall2 R l [] -> l = [].
Proof. inversion 1; reflexivity. Qed.

Theorem build_spec : forall fuel heap tv ts,
  Forall2 (ent_ok tv) heap ts -> heap <> [] -> length heap <= fuel ->
  let tv' := build fuel heap tv in
  exists t root, nth_error tv' (length tv' - 1) = Some root /\ Rep tv' root t /\
    tcost t 0 = sum_tcost ts + fcost ts /\
    Permutation (lsw t) (concat (map lsw ts)) /\
    length tv' = length tv + 2 * length heap - 1.
Proof.
  induction fuel as [|fuel IH]; intros heap tv ts HF Hne Hlen.
  - destruct heap; [congruence|cbn in Hlen; lia].
  - cbn [build].
    destruct (pop_aligned HF Hne) as (e1 & t1 & h1 & ts1 & Hp1 & Hok1 & HF1 & HP1 & Hmin1).
    rewrite Hp1.
    assert (Hl1 : length heap = S (length h1)).
    { rewrite (Forall2_length HF), (Permutation_length HP1). cbn. f_equal. symmetry. apply (Forall2_length HF1). }
    destruct h1 as [|x1 h1'].
    + (* last entry: it is the root *)
      cbn [pop_max].
      assert (ts1 = []) by (inversion HF1; reflexivity). subst ts1.
      exists t1, (snd e1). rewrite app_length. cbn [length].
      replace (length tv + 1 - 1) with (length tv) by lia.
      rewrite nth_error_app2, Nat.sub_diag by lia. split; [reflexivity|].
      split; [apply Rep_app; apply Hok1|].
      rewrite (sum_tcost_perm HP1), (fcost_perm HP1), (lsw_perm HP1). unfold sum_tcost, fcost. cbn.
      rewrite app_nil_r. split; [lia|]. split; [reflexivity|]. unfold ent in *. rewrite Hl1. cbn [length]. lia.
    + assert (Hne1 : x1 :: h1' <> []) by discriminate.
      destruct (pop_aligned HF1 Hne1) as (e2 & t2 & h2 & ts2 & Hp2 & Hok2 & HF2 & HP2 & Hmin2).
      rewrite Hp2.
      assert (Hl2 : length (x1 :: h1') = S (length h2)).
      { rewrite (Forall2_length HF1), (Permutation_length HP2). cbn. f_equal. symmetry. apply (Forall2_length HF2). }
      set (tv1 := tv ++ [snd e1; snd e2]).
      set (fork := Fork (length tv) (S (length tv))).
      assert (HFn : Forall2 (ent_ok tv1) ((fst e1 + fst e2, fork)%Z :: h2) (TNode t1 t2 :: ts2)).
      { constructor; [|apply Forall2_ent_ok_app; assumption].
        destruct Hok1 as [R1 W1]. destruct Hok2 as [R2 W2]. split.
        - unfold fork, tv1. cbn [snd]. econstructor.
          + rewrite nth_error_app2, Nat.sub_diag by lia. reflexivity.
          + rewrite nth_error_app2 by lia. replace (S (length tv) - length tv) with 1 by lia. reflexivity.
          + apply Rep_app. exact R1.
          + apply Rep_app. exact R2.
        - cbn [fst snd weight]. rewrite Nat2Z.inj_add. rewrite W1, W2. ring. }
      assert (Hfuel : length ((fst e1 + fst e2, fork)%Z :: h2) <= fuel).
      { cbn [length] in Hl1, Hl2 |- *. clear - Hl1 Hl2 Hlen. unfold ent in *. lia. }
      destruct (IH _ tv1 _ HFn) as (t & root & Hroot & Hrep & Hcost & Hperm & Hlenf); [discriminate|exact Hfuel|].
      exists t, root. split; [exact Hroot|]. split; [exact Hrep|].
      assert (HPall : Permutation ts (t1 :: t2 :: ts2)) by (rewrite HP1; constructor; exact HP2).
      split; [|split].
      * rewrite Hcost, (sum_tcost_perm HPall), (fcost_perm HPall).
        rewrite fcost_merge.
        -- unfold sum_tcost. simpl map. simpl list_sum. rewrite tcost_node. lia.
        -- rewrite Forall_forall in *. intros u Hu. apply Hmin1.
           eapply Permutation_in; [symmetry; exact HPall|]. right. exact Hu.
        -- rewrite Forall_forall in *. intros u Hu. apply Hmin2.
           eapply Permutation_in; [symmetry; exact HP2|]. right. exact Hu.
      * rewrite Hperm, (lsw_perm HPall). cbn [map concat lsw]. rewrite !app_assoc.
        apply Permutation_app_tail. apply Permutation_app_comm.
      * rewrite Hlenf. unfold tv1. rewrite app_length. cbn [length] in *. unfold ent in *. lia.
Qed.

(** * from counts to code lengths *)
Definition count_of (counts : list (sym * Z)) (s : sym) : nat :=
  match find (fun sc : sym * Z => N.eqb (fst sc) s) counts with Some sc => Z.to_nat (snd sc) | None => 0 end.
(** what the model's lengths cost on the statistics: sum over symbols of count * code length *)
Definition lv_cost (counts : list (sym * Z)) (lv : list (nat * sym)) : nat :=
  list_sum (map (fun ds : nat * sym => count_of counts (snd ds) * fst ds) lv).

Definition leaf_of (sc : sym * Z) : tree := TLeaf (fst sc) (Z.to_nat (snd sc)).
Definition heap_of (counts : list (sym * Z)) : list ent := map (fun sc : sym * Z => ((- snd sc)%Z, Leaf (fst sc))) counts.

Lemma heap_of_ok counts : Forall (fun sc : sym * Z => (0 <= snd sc)%Z) counts ->
  Forall2 (ent_ok []) (heap_of counts) (map leaf_of counts).
Proof.
  induction 1 as [|[s c] l Hc Hl IH]; cbn; constructor; [|assumption].
  split; [constructor|]. cbn in *. rewrite Z2Nat.id by assumption. reflexivity.
Qed.

Lemma ins_level_perm x l : Permutation (ins_level x l) (x :: l).
Proof.
  induction l as [|y l IH]; cbn [ins_level]; [reflexivity|]. destruct (fst x <? fst y); [reflexivity|].
  rewrite IH. apply perm_swap.
Qed.
Lemma sort_levels_perm l : Permutation (sort_levels l) l.
Proof.
  unfold sort_levels.
  assert (G : forall acc, Permutation (fold_left (fun acc x => ins_level x acc) l acc) (acc ++ l)).
  { induction l as [|x l IH]; intros acc; cbn; [now rewrite app_nil_r|].
    rewrite IH, ins_level_perm. rewrite (Permutation_middle acc l x). reflexivity. }
  apply (G []).
Qed.

Lemma count_of_in counts s w : NoDup (map fst counts) -> In (s, w) (map (fun sc : sym * Z => (fst sc, Z.to_nat (snd sc))) counts) ->
  count_of counts s = w.
Proof.
  unfold count_of. induction counts as [|[k c] l IH]; cbn; [tauto|]. intros Hnd [Heq|Hin].
  - inversion Heq; subst. rewrite N.eqb_refl. reflexivity.
  - inversion Hnd as [|? ? Hk Hnd']; subst. destruct (N.eqb_spec k s) as [->|Hne].
    + exfalso. apply Hk. apply in_map_iff in Hin. destruct Hin as ([k' c'] & Heq & Hin'). inversion Heq; subst.
      apply in_map_iff. exists (s, c'). auto.
    + apply IH; assumption.
Qed.

Lemma lv_cost_tree counts t lvl : (forall s w, In (s, w) (lsw t) -> count_of counts s = w) ->
  lv_cost counts (flat_rl t lvl) = tcost t lvl.
Proof.
  unfold lv_cost, tcost. revert lvl. induction t as [s w|l IHl r IHr]; intros lvl Hc; cbn [flat_rl wd lsw] in *.
  - unfold cost. cbn. rewrite (Hc s w) by (left; reflexivity). lia.
  - rewrite map_app, list_sum_app, cost_app.
    rewrite IHl by (intros; apply Hc; apply in_or_app; auto).
    rewrite IHr by (intros; apply Hc; apply in_or_app; auto). reflexivity.
Qed.

Lemma flat_rl_length t lvl : length (flat_rl t lvl) = leaves t.
Proof. revert lvl. induction t; intros lvl; cbn; [reflexivity|]. rewrite app_length, IHt1, IHt2. lia. Qed.
Lemma lsw_length t : length (lsw t) = leaves t.
Proof. induction t; cbn; [reflexivity|]. rewrite app_length. lia. Qed.

Lemma concat_map_lsw_leaves counts : concat (map lsw (map leaf_of counts)) = map (fun sc : sym * Z => (fst sc, Z.to_nat (snd sc))) counts.
Proof. induction counts as [|sc l IH]; cbn; [reflexivity|]. rewrite IH. reflexivity. Qed.

Lemma sum_tcost_leaves counts : sum_tcost (map leaf_of counts) = 0.
Proof.
  unfold sum_tcost. induction counts as [|sc l IH]; [reflexivity|].
  simpl map. simpl list_sum. rewrite IH. unfold tcost, cost, leaf_of. simpl. lia.
Qed.

(** the unsorted levels are the depths of a tree whose cost is the greedy cost of the counts *)
Theorem levels_tree counts : 2 <= length counts -> Forall (fun sc : sym * Z => (0 <= snd sc)%Z) counts ->
  exists t, Permutation (levels_of counts) (flat_rl t 0) /\
    tcost t 0 = hcost (length counts) (isort (map (fun sc : sym * Z => Z.to_nat (snd sc)) counts)) /\
    Permutation (lsw t) (map (fun sc : sym * Z => (fst sc, Z.to_nat (snd sc))) counts).
Proof.
  intros Hn Hpos. unfold levels_of.
  pose proof (heap_of_ok Hpos) as HF. fold (heap_of counts).
  assert (Hne : heap_of counts <> []) by (destruct counts; [cbn in Hn; lia|discriminate]).
  assert (Hfuel : length (heap_of counts) <= length counts) by (unfold heap_of; rewrite map_length; lia).
  destruct (build_spec HF Hne Hfuel) as (t & root & Hroot & Hrep & Hcost & Hperm & Hlen).
  set (tv := build (length counts) (heap_of counts) []) in *.
  assert (Hleaves : leaves t = length counts).
  { rewrite <- lsw_length, (Permutation_length Hperm), concat_map_lsw_leaves, map_length. reflexivity. }
  assert (Hdfs : dfs (2 * length tv + 1) tv [(length tv - 1, 0)] [] = flat_rl t 0).
  { rewrite (@dfs_spec tv (2 * length tv + 1) [(length tv - 1, 0)] [t] []).
    - cbn. now rewrite app_nil_r.
    - constructor; [exists root; auto|constructor].
    - pose proof (nodes_leaves t) as Hnl. rewrite Hleaves in Hnl.
      assert (Hlt : length tv = 2 * length counts - 1).
      { rewrite Hlen. unfold heap_of. rewrite map_length. cbn [length]. lia. }
      simpl map. simpl list_sum. rewrite Hlt. clear - Hnl Hn. lia. }
  rewrite Hdfs.
  exists t. split; [|split].
  - pose proof (sort_levels_perm (flat_rl t 0)) as HP.
    destruct (sort_levels (flat_rl t 0)) as [|[d s] [|y l]] eqn:E; try exact HP.
    apply Permutation_length in HP. rewrite flat_rl_length, Hleaves in HP. cbn in HP. lia.
  - rewrite Hcost, sum_tcost_leaves. unfold fcost. rewrite !map_length, map_map. reflexivity.
  - rewrite Hperm, concat_map_lsw_leaves. reflexivity.
Qed.

Lemma lv_cost_perm counts l l' : Permutation l l' -> lv_cost counts l = lv_cost counts l'.
Proof. intros HP. unfold lv_cost. apply Permutation_list_sum_nat, Permutation_map, HP. Qed.

(** the depths of the leaves of a binary tree are realisable *)
Fixpoint depths (t : tree) (lvl : nat) : list nat :=
  match t with TLeaf _ _ => [lvl] | TNode l r => depths r (S lvl) ++ depths l (S lvl) end.
Lemma real_graft t : forall d ds, real (d :: ds) -> real (depths t d ++ ds).
Proof.
  induction t as [s w|l IHl r IHr]; intros d ds H; cbn [depths app]; [exact H|].
  apply real_split in H.
  (* graft r on the first S d, then l on the second *)
  apply IHr in H.
  assert (HP : Permutation (depths r (S d) ++ S d :: ds) (S d :: depths r (S d) ++ ds)) by (symmetry; apply Permutation_middle).
  apply (@real_perm _ _ HP) in H. apply IHl in H.
  eapply real_perm; [|exact H]. rewrite <- app_assoc. rewrite !app_assoc. apply Permutation_app_tail. apply Permutation_app_comm.
Qed.
Lemma real_depths t : real (depths t 0).
Proof. rewrite <- (app_nil_r (depths t 0)). apply real_graft. constructor. Qed.
Lemma depths_flat t lvl : depths t lvl = map fst (flat_rl t lvl).
Proof. revert lvl. induction t; intros lvl; cbn; [reflexivity|]. rewrite map_app, IHt1, IHt2. reflexivity. Qed.

(** * C06: the model's code lengths are optimal *)
Theorem model_lengths_optimal counts : 2 <= length counts -> NoDup (map fst counts) ->
  Forall (fun sc : sym * Z => (0 <= snd sc)%Z) counts ->
  (* the lengths form a prefix code: they are the leaf depths of a binary tree ... *)
  real (map fst (levels_of counts)) /\
  (* ... and no pairing of the counts with the leaf depths of ANY binary tree costs less *)
  forall ps, length ps = length counts -> real (map snd ps) ->
    Permutation (map fst ps) (map (fun sc : sym * Z => Z.to_nat (snd sc)) counts) ->
    lv_cost counts (levels_of counts) <= cost ps.
Proof.
  intros Hn Hnd Hpos. destruct (levels_tree Hn Hpos) as (t & HP & Hcost & Hlsw). split.
  - eapply real_perm; [symmetry; apply Permutation_map; exact HP|]. rewrite <- depths_flat. apply real_depths.
  - intros ps Hlen Hreal Hperm.
    rewrite (lv_cost_perm counts HP), lv_cost_tree, Hcost.
    + apply huffman_optimal; [assumption|assumption| |apply isort_sorted].
      rewrite isort_perm. symmetry. exact Hperm.
    + intros s w Hin. apply count_of_in; [assumption|]. eapply Permutation_in; [exact Hlsw|exact Hin].
Qed.

(** a lone symbol gets a one-bit code (at least one bit per symbol) *)
Theorem single_symbol_one_bit s c : levels_of [(s, c)] = [(1, s)].
Proof.
  unfold levels_of. cbn [map length build pop_max max_ent remove_ent fst snd].
  rewrite ent_cmp_refl. reflexivity.
Qed.
