(** C16 Serialisation round trip.  serde / serde_json and the derive output are trusted, not
    modelled: the model's round trip is the identity on states, and the correspondence check shows
    the implementation's round trip is observationally the identity too (same reads, same future
    indices).  What is proved here is the consequence the property cares about: ANY state that is
    observationally equivalent to the original (in particular an identical one) reads identically
    at every issued index and answers every further history identically. *)
From FC Require Import Base.Res Region.Region Region.History.

Theorem C16_equal_reads : forall (R : Region) (SP : RSpec R), RegionOK R ->
  forall s t log, inv s -> inv t -> sim s t -> log_ok s log -> log_ok t log.
Proof. exact (@sim_log). Qed.

Theorem C16_equal_futures : forall (R : Region) (SP : RSpec R), RegionOK R ->
  forall (ops : list (op R)) s t log tr s' log' tr', inv s -> inv t -> sim s t ->
  run ops s log tr = Ok (s', log', tr') ->
  exists t', run ops t log tr = Ok (t', log', tr') /\ sim s' t' /\ inv s' /\ inv t'.
Proof. exact (@run_sim). Qed.
