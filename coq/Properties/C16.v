(** C16 Serialisation round trip.  serde / serde_json are trusted, not modelled.  The model carries the
    SERIALISED FORM of every serde-enabled region, index container and FlatStack as the name-free
    tree the derives emit (Serde/Ser.v: one definition per derive, fields in declaration order);
    the check compares that tree, computed from the model state, with the tree the crate's own
    [Serialize] impls emit, before and after the round trip: equality of the whole internal state.
    Proved here: (1) the tree determines the model state ([SerInj], per combinator and for every
    catalogue entry), so a deserialised value with the same tree is represented by the same model
    state; (2) ANY state observationally equivalent to the original (in particular an identical
    one) reads identically at every issued index and answers every further history identically. *)
From FC Require Import Base.Res Base.UVal Index.IC Region.Region Region.History Serde.Ser.
From FC Require Import Model.Wire Model.Catalogue Model.CatalogueOk.

Theorem C16_equal_reads : forall (R : Region) (SP : RSpec R), RegionOK R ->
  forall s t log, inv s -> inv t -> sim s t -> log_ok s log -> log_ok t log.
Proof. exact (@sim_log). Qed.

Theorem C16_equal_futures : forall (R : Region) (SP : RSpec R), RegionOK R ->
  forall (ops : list (op R)) s t log tr s' log' tr', inv s -> inv t -> sim s t ->
  run ops s log tr = Ok (s', log', tr') ->
  exists t', run ops t log tr = Ok (t', log', tr') /\ sim s' t' /\ inv s' /\ inv t'.
Proof. exact (@run_sim). Qed.

(** The serialised form leaves nothing out: it determines the state and the index, for every
    combinator (shown for the three with bookkeeping beyond their children) ... *)
Theorem C16_collapse_form : forall (R : Region) veq (S : RSer R), SerInj S -> SerInj (collapse_ser veq S).
Proof. exact (@collapse_ser_inj). Qed.
Theorem C16_consec_form : forall (R : Region) (PI : Consec.PairIdx R) (O : IC nat) (OS : ICSer O), ICSerInj O ->
  forall chk (S : RSer R), SerInj S -> SerInj (@consec_ser R PI O OS chk S).
Proof. exact (@consec_ser_inj). Qed.
Theorem C16_index_optimized_form : ICSerInj Stride.index_optimized.
Proof. exact index_optimized_ser_inj. Qed.
(** ... and for EVERY region of the catalogue that derives Serialize (the [entry] function the
    correspondence runs), including the stride state, the u32/u64 split, the deduplication memory and
    the offsets: two states with the same serialised tree are the same state. *)
Theorem C16_catalogue_form : forall chk szs n e, entry chk szs n = Some e ->
  forall S, m_ser e = Some S -> injective (r_ser S) /\ injective (r_iser S).
Proof.
  intros chk szs n e He S HS. destruct (@catalogue_ser_inj chk szs n e He S HS) as [H1 H2]. split; assumption.
Qed.
