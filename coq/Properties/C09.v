(** C09 clone / clone_from.  In the value model a clone IS the original state; what remains to be
    said is that equal (indeed any two observationally equivalent) states answer every further
    history identically.  Independence of the two copies in the implementation is Rust ownership
    and is not expressible in a value model (partial; see DESIGN.md). *)
From FC Require Import Base.Res Region.Region Region.History.

Theorem C09_equal_futures : forall (R : Region) (SP : RSpec R), RegionOK R ->
  forall (ops : list (op R)) s t log tr s' log' tr', inv s -> inv t -> sim s t ->
  run ops s log tr = Ok (s', log', tr') ->
  exists t', run ops t log tr = Ok (t', log', tr') /\ sim s' t' /\ inv s' /\ inv t'.
Proof. exact (@run_sim). Qed.

Theorem C09_equal_reads : forall (R : Region) (SP : RSpec R), RegionOK R ->
  forall s t log, inv s -> inv t -> sim s t -> log_ok s log -> log_ok t log.
Proof. exact (@sim_log). Qed.
