(** C09 clone / clone_from.  In the value model a clone IS the original state; [clone_from] is
    modelled field by field as the hand-written Rust impls do it (Region/CloneFrom.v) and proved to
    return the source whatever the destination held -- for every combinator and for every
    catalogue entry; equal (indeed any two observationally equivalent) states answer every
    further history identically.  Independence of the two copies in the implementation is Rust
    ownership and is not expressible in a value model (partial; see DESIGN.md). *)
From FC Require Import Base.Res Index.IC Region.Region Region.History Region.CloneFrom Region.Consec.
From FC Require Import Model.Wire Model.Catalogue Model.CatalogueOk.

Theorem C09_equal_futures : forall (R : Region) (SP : RSpec R), RegionOK R ->
  forall (ops : list (op R)) s t log tr s' log' tr', inv s -> inv t -> sim s t ->
  run ops s log tr = Ok (s', log', tr') ->
  exists t', run ops t log tr = Ok (t', log', tr') /\ sim s' t' /\ inv s' /\ inv t'.
Proof. exact (@run_sim). Qed.

Theorem C09_equal_reads : forall (R : Region) (SP : RSpec R), RegionOK R ->
  forall s t log, inv s -> inv t -> sim s t -> log_ok s log -> log_ok t log.
Proof. exact (@sim_log). Qed.

(** clone_from leaves exactly the source: no field is forgotten (shown for the combinators with
    bookkeeping beyond their children) ... *)
Theorem C09_collapse_clone_from : forall (R : Region) veq (C : RClone R), CloneFromOK C ->
  forall d s, r_clone_from (collapse_clone veq C) d s = s.
Proof. exact (@collapse_clone_ok). Qed.
Theorem C09_consec_clone_from : forall (R : Region) (PI : PairIdx R) (O : IC nat) chk (C : RClone R), CloneFromOK C ->
  forall d s, r_clone_from (@consec_clone R PI O chk C) d s = s.
Proof. exact (@consec_clone_ok). Qed.
Theorem C09_columns_clone_from : forall (R : Region) (O : IC nat) chk (C : RClone R), CloneFromOK C ->
  forall d s, r_clone_from (columns_clone O chk C) d s = s.
Proof. exact (@columns_clone_ok). Qed.
(** ... and for EVERY Clone-able region of the catalogue (the [entry] function the correspondence runs) *)
Theorem C09_catalogue_clone_from : forall chk szs n e, entry chk szs n = Some e ->
  forall C, m_clone e = Some C -> forall d s, r_clone_from C d s = s.
Proof. exact catalogue_clone_from. Qed.
