(** C17 Allocation discipline: no reallocation after pre-sizing. *)
From FC Require Import Base.Res Index.IC Region.Region Region.Owned Region.Simple Region.Slice Region.Collapse
  Resource.Res Resource.ResOk Resource.Alloc.
Local Open Scope N_scope.

(** std's documented Vec contract, over an ABSTRACT growth policy [grow] (hypothesis [need <= grow
    cap need], nothing else): after reserve(n) at length len, growing to any length <= len + n
    leaves the capacity unchanged. *)
Theorem C17_vec_contract : forall (grow : N -> N -> N), (forall cap need, need <= grow cap need) ->
  forall len cap n k, k <= n ->
  ensure grow (ensure grow cap (len + n)) (len + k) = ensure grow cap (len + n).
Proof. exact (@vec_reserve_no_realloc). Qed.

(** Whole regions: if the capacities cover used + announced bytes per backing vector (what
    reserve_items / reserve_regions / merge_regions size for), pushing ANY prefix of the announced
    items keeps every backing vector within its capacity ... *)
Theorem C17_presize_no_growth : forall (R : Region) (SP : RSpec R) (H : RegionOK R) (V : Res R) (HV : ResOK R V)
  s vs caps, inv s -> ple (padd (r_used V s) (r_items V vs)) caps ->
  forall k s' is, push_all R s (firstn k vs) = Ok (s', is) -> ple (r_used V s') caps.
Proof. exact (@presize_no_growth). Qed.

(** ... so [ensure] leaves every capacity alone, for every growth policy. *)
Theorem C17_caps_constant : forall (R : Region) (SP : RSpec R) (H : RegionOK R) (V : Res R) (HV : ResOK R V)
  (grow : N -> N -> N) s vs caps, inv s -> ple (padd (r_used V s) (r_items V vs)) caps ->
  forall k s' is, push_all R s (firstn k vs) = Ok (s', is) ->
  Forall2 (fun u c => ensure grow c u = c) (r_used V s') caps.
Proof. exact (@presize_caps_constant). Qed.

(** reserve_regions / merge_regions size by the sources' lengths, which for the structural
    regions are exactly what their contents announce. *)
Theorem C17_contents_exact : forall (R : Region) (SP : RSpec R) (H : RegionOK R) (V : Res R) (HV : ResOK R V)
  (HE : ResExact R V) vs s s' is, inv s -> push_all R s vs = Ok (s', is) ->
  r_used V s' = padd (r_used V s) (r_items V vs).
Proof. exact (@contents_exact). Qed.

(** the vector-backed structural regions meet the resource contract (induction over compositions) *)
Theorem C17_owned : forall T sz, ResOK (owned T) (owned_res T sz).
Proof. exact (@owned_res_ok). Qed.
Theorem C17_vec_region : forall T sz, ResOK (vec_region T) (vec_region_res T sz).
Proof. exact (@vec_region_res_ok). Qed.
Theorem C17_string : forall R wf (SP : RSpec R) (V : Res R), ResOK R V ->
  @ResOK (string_region R) (@string_spec R wf SP) (string_res V).
Proof. exact (@string_res_ok). Qed.
Theorem C17_option : forall R (SP : RSpec R) (H : RegionOK R) (V : Res R), ResOK R V -> ResOK (option_region R) (option_res V).
Proof. exact (@option_res_ok). Qed.
Theorem C17_result : forall A B (SA : RSpec A) (HA : RegionOK A) (SB : RSpec B) (HB : RegionOK B) (VA : Res A) (VB : Res B),
  ResOK A VA -> ResOK B VB -> ResOK (result_region A B) (result_res VA VB).
Proof. exact (@result_res_ok). Qed.
Theorem C17_tuple2 : forall A B (SA : RSpec A) (HA : RegionOK A) (SB : RSpec B) (HB : RegionOK B) (VA : Res A) (VB : Res B),
  ResOK A VA -> ResOK B VB -> ResOK (tuple2 A B) (tuple2_res VA VB).
Proof. exact (@tuple2_res_ok). Qed.
Theorem C17_slice : forall R (SP : RSpec R) (H : RegionOK R) isz (V : Res R), ResOK R V ->
  ResOK (slice R (vec_ic (idx R) isz)) (slice_vec_res isz V).
Proof. exact (@slice_vec_res_ok). Qed.
Theorem C17_collapse_inside : forall R veq (SP : RSpec R) (H : RegionOK R) (V : Res R), ResOK R V ->
  ResOK (collapse R veq) (collapse_res veq V).
Proof. exact (@collapse_res_ok). Qed.

(** Without pre-sizing: for ANY growth policy that satisfies the request and at least doubles the
    capacity (std's documented amortised growth, two hypotheses on an abstract [grow]), a backing
    vector asked to hold any sequence of positive lengths reallocates at most
    log2(final capacity) + 1 times -- O(log n) per internal storage, never one per item.  The check
    measures exactly this bound on the real allocator (sum over storages of log2(capacity) + 2). *)
Theorem C17_log_reallocs : forall (grow : N -> N -> N),
  (forall cap need, need <= grow cap need) -> (forall cap need, 2 * cap <= grow cap need) ->
  forall needs cap, Forall (fun n => 1 <= n) needs ->
  (snd (reallocs grow cap needs) <= N.to_nat (N.log2 (fst (reallocs grow cap needs))) + 1)%nat.
Proof. exact (@log_reallocs). Qed.
