(** C05 Index containers store arbitrary usize sequences faithfully and never panic. *)
From FC Require Import Base.Res Index.IC Index.Stride Index.StrideOk.
Local Open Scope N_scope.

(** Any container meeting [ICOk] represents, after ANY sequence of pushes and clears, exactly the
    values pushed since the last clear ([ic_abs]); len / is_empty / index / iteration are
    functions of that sequence ([ICOk] fields), index(i) never panics for i < len. *)
Theorem C05_reachable : forall T (c : IC T) (H : ICOk c) (ops : list (icop T)) (s : ic_st c), ic_inv s ->
  ic_inv (fold_left (@ic_step T c) ops s) /\
  ic_abs (fold_left (@ic_step T c) ops s) = fold_left (@spec_step T) ops (ic_abs s).
Proof. exact (@ic_reachable). Qed.

Theorem C05_index_list_ok : ICOk index_list.
Proof. exact index_list_ok. Qed.
Theorem C05_index_optimized_ok : ICOk index_optimized.
Proof. exact index_optimized_ok. Qed.
Theorem C05_vec_ok : forall T sz, ICOk (vec_ic T sz).
Proof. exact (@vec_ic_ok). Qed.

(** IndexOptimized: a push appends, for every x (no bound on x needed: the container stays a
    faithful list even beyond machine words; on machine words it is the code's semantics). *)
Theorem C05_iopt_push : forall o x, io_wf o -> io_wf (io_push o x) /\ io_abs (io_push o x) = io_abs o ++ [x].
Proof. exact io_push_spec. Qed.

(** Stride::push: an accepted value extends the represented sequence by exactly that value; a
    rejected push leaves the state untouched. *)
Theorem C05_stride_push_spec : forall st x, stride_wf st ->
  forall b st', stride_push st x = (b, st') ->
    (b = true -> stride_wf st' /\ stride_abs st' = stride_abs st ++ [x]) /\
    (b = false -> st' = st).
Proof. exact stride_push_spec. Qed.

(** Completeness: a machine word that continues the documented pattern 0, s, 2s, ... (next
    multiple, when representable) or repeats the last element is accepted ... *)
Theorem C05_stride_push_complete : forall st x, stride_wf st -> x < W ->
  match st with
  | SEmpty => x = 0
  | SZero => True
  | SStriding s c => x = s * N.of_nat c \/ x = s * N.of_nat (c - 1)
  | SSaturated s c r => x = s * N.of_nat (c - 1)
  end -> fst (stride_push st x) = true.
Proof. exact stride_push_complete. Qed.

(** ... and nothing else is accepted. *)
Theorem C05_stride_push_sound : forall st x, fst (stride_push st x) = true ->
  match st with
  | SEmpty => x = 0
  | SZero => True
  | SStriding s c => (x = s * N.of_nat c /\ x < W) \/ x = s * N.of_nat (c - 1)
  | SSaturated s c r => x = s * N.of_nat (c - 1)
  end.
Proof. exact stride_push_sound. Qed.

Theorem C05_stride_observers : forall st, stride_wf st ->
  stride_len st = length (stride_abs st) /\ stride_iter st = Ok (stride_abs st).
Proof. intros st H. exact (conj (stride_len_spec st) (@stride_iter_spec st H)). Qed.

(** Once anything was spilled — whichever of the two spill vectors it went to, the 64-bit one included when the
    first spilled value is >= 2^32 — the stride is frozen: every later index goes to the spill list, in order,
    so nothing is ever stored in front of an already spilled index. *)
From FC Require Import Index.StrideCost.
Theorem C05_spill_freezes_stride : forall l o, il_is_empty (spilled o) = false ->
  fold_left io_push l o = {| strided := strided o; spilled := fold_left il_push l (spilled o) |}.
Proof. exact io_pushes_spilled. Qed.
Theorem C05_spill_list_never_empties : forall s x, il_is_empty (il_push s x) = false.
Proof. exact il_push_nonempty. Qed.
