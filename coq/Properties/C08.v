(** C08 clear() makes a region observationally fresh, whatever came before. *)
From FC Require Import Base.Res Region.Region Region.History.

Theorem C08_clear_state : forall (R : Region) (SP : RSpec R), RegionOK R ->
  forall s, inv s -> inv (clear R s) /\ sim (clear R s) (dflt R).
Proof. intros R SP H. exact (@clear_ok R SP H). Qed.

(** sim is a congruence for push and read: identical indices, sim successor states, same reads *)
Theorem C08_sim_push : forall (R : Region) (SP : RSpec R), RegionOK R ->
  forall s t v s' i, inv s -> inv t -> sim s t -> push R s v = Ok (s', i) ->
  exists t', push R t v = Ok (t', i) /\ sim s' t'.
Proof. intros R SP H. exact (@sim_push R SP H). Qed.

(** For all histories h1 (before the clear) and h2 (after it): running h2 after h1;clear returns
    exactly the indices, and logs exactly the reads, that h2 returns on a default region. *)
Theorem C08_clear_fresh : forall (R : Region) (SP : RSpec R), RegionOK R ->
  forall (h1 h2 : list (op R)) s1 log1 tr1, covered h1 (dflt R) ->
  run h1 (dflt R) [] [] = Ok (s1, log1, tr1) ->
  forall s2 log2 tr2, run h2 (clear R s1) [] [] = Ok (s2, log2, tr2) ->
  exists s2', run h2 (dflt R) [] [] = Ok (s2', log2, tr2) /\ sim s2 s2'.
Proof. exact (@clear_fresh). Qed.
