(** C18 heap_size accounts for what is stored.  [r_used] is the list of used bytes per heap_size
    callback in callback order (the correspondence check compares it with the implementation's
    figures exactly, so every branch of a composite contributes there iff it does here);
    capacities are the implementation's and used <= capacity is checked on its observations. *)
From FC Require Import Base.Res Index.IC Region.Region Region.Owned Region.Simple Region.Slice Region.Collapse
  Resource.Res Resource.ResOk Resource.Alloc.
Local Open Scope N_scope.

(** used bytes never decrease on push, per callback (hence in sum) ... *)
Theorem C18_push_monotone : forall (R : Region) (SP : RSpec R) (V : Res R), ResOK R V ->
  forall s v s' i, inv s -> push R s v = Ok (s', i) -> ple (r_used V s) (r_used V s').
Proof. intros R SP V H s v s' i Hs Hp. exact (proj2 (@used_push_le R SP V H s v s' i Hs Hp)). Qed.
Theorem C18_sum_monotone : forall (R : Region) (SP : RSpec R) (V : Res R), ResOK R V ->
  forall s v s' i, inv s -> push R s v = Ok (s', i) -> total (r_used V s) <= total (r_used V s').
Proof. intros R SP V H s v s' i Hs Hp. apply ple_total. exact (proj2 (@used_push_le R SP V H s v s' i Hs Hp)). Qed.

(** ... and for the structural regions they account for EXACTLY the payload bytes plus one index
    entry per Vec-held index of everything pushed ([r_items]): nothing is omitted. *)
Theorem C18_complete : forall (R : Region) (SP : RSpec R) (H : RegionOK R) (V : Res R) (HV : ResOK R V)
  (HE : ResExact R V) vs s s' is, inv s -> push_all R s vs = Ok (s', is) ->
  total (r_used V s') = total (r_used V s) + total (r_items V vs).
Proof.
  intros R SP H V HV HE vs s s' is Hs Hp.
  rewrite (@contents_exact R SP H V HV HE vs s s' is Hs Hp). apply total_padd.
Qed.

(** deduplication stores at most what the item announces, and nothing on a hit (C11) *)
Theorem C18_collapse : forall R veq (SP : RSpec R) (H : RegionOK R) (V : Res R), ResOK R V ->
  ResOK (collapse R veq) (collapse_res veq V).
Proof. exact (@collapse_res_ok). Qed.

(** after clear no pushed payload is accounted any more *)
Theorem C18_owned_clear : forall T sz s, r_used (owned_res T sz) (clear (owned T) s) = [0].
Proof. exact (@owned_clear_used). Qed.

(** "Used bytes never decrease on push" for EVERY combinator (Resource/ResMono.v): for columns (whose
    number of heap_size callbacks grows with the widest row), consecutive pairs and slices over the
    compressed index containers the statement is about the SUM over all callbacks ... *)
From FC Require Import Resource.ResMono Region.Consec Region.Columns Model.Wire Model.Catalogue Model.CatalogueOk.
Theorem C18_columns_monotone : forall (R : Region) (SP : RSpec R) (O : IC nat) (HO : ICOk O), ICUsedMono O ->
  forall chk (V : Res R), ResMono R V -> forall csz isz, ResMono (columns R O chk) (columns_res O chk csz isz V).
Proof. exact (@columns_res_mono). Qed.
Theorem C18_consec_monotone : forall (R : Region) (SP : RSpec R) (H : RegionOK R) (PI : PairIdx R) (D : Dense R)
  (O : IC nat) (HO : ICOk O), ICUsedMono O -> forall chk (V : Res R), ResMono R V -> ResMono (consec R O chk) (consec_res O chk V).
Proof. exact (@consec_res_mono). Qed.
(** ... and it holds for EVERY region of the catalogue (the [entry] function the correspondence runs and whose
    [r_used] figures the check compares with the crate's heap_size callback by callback), except entries 21 and 29. *)
Theorem C18_catalogue : forall chk szs n e, entry chk szs n = Some e -> n <> 21%N -> n <> 29%N ->
  exists SP : RSpec (mr e), forall s v s' i, @inv _ SP s -> push (mr e) s v = Ok (s', i) ->
    total (r_used (m_res e) s) <= total (r_used (m_res e) s').
Proof.
  intros chk szs n e He H21 H29. destruct (@catalogue_full chk szs n e He H21 H29) as (SP & IS & _ & _ & _ & HV).
  exists SP. exact HV.
Qed.
