(** C18 heap_size accounts for what is stored.  [r_used] is the list of used bytes per heap_size
    callback in callback order (the correspondence check compares it with the implementation's
    figures exactly, so every branch of a composite contributes there iff it does here);
    capacities are the implementation's and used <= capacity is checked on its observations. *)
From FC Require Import Base.Res Index.IC Region.Region Region.Owned Region.Simple Region.Slice Region.Collapse
  Resource.Res Resource.ResOk Resource.Alloc.
Local Open Scope N_scope.

(** used bytes never decrease on push, per callback (hence in sum) ... *)
Theorem C18_push_monotone : forall (R : Region) (SP : RSpec R) (V : Res R), ResOK R V ->
  forall s v s' i, inv s -> push R s v = Ok (s', i) -> ple (r_used V s) (r_used V s').
Proof. intros R SP V H s v s' i Hs Hp. exact (proj2 (@used_push_le R SP V H s v s' i Hs Hp)). Qed.
Theorem C18_sum_monotone : forall (R : Region) (SP : RSpec R) (V : Res R), ResOK R V ->
  forall s v s' i, inv s -> push R s v = Ok (s', i) -> total (r_used V s) <= total (r_used V s').
Proof. intros R SP V H s v s' i Hs Hp. apply ple_total. exact (proj2 (@used_push_le R SP V H s v s' i Hs Hp)). Qed.

(** ... and for the structural regions they account for EXACTLY the payload bytes plus one index
    entry per Vec-held index of everything pushed ([r_items]): nothing is omitted. *)
Theorem C18_complete : forall (R : Region) (SP : RSpec R) (H : RegionOK R) (V : Res R) (HV : ResOK R V)
  (HE : ResExact R V) vs s s' is, inv s -> push_all R s vs = Ok (s', is) ->
  total (r_used V s') = total (r_used V s) + total (r_items V vs).
Proof.
  intros R SP H V HV HE vs s s' is Hs Hp.
  rewrite (@contents_exact R SP H V HV HE vs s s' is Hs Hp). apply total_padd.
Qed.

(** deduplication stores at most what the item announces, and nothing on a hit (C11) *)
Theorem C18_collapse : forall R veq (SP : RSpec R) (H : RegionOK R) (V : Res R), ResOK R V ->
  ResOK (collapse R veq) (collapse_res veq V).
Proof. exact (@collapse_res_ok). Qed.

(** after clear no pushed payload is accounted any more *)
Theorem C18_owned_clear : forall T sz s, r_used (owned_res T sz) (clear (owned T) s) = [0].
Proof. exact (@owned_clear_used). Qed.
