(** C11 CollapseSequence collapses exactly consecutive equal items, nothing else. *)
From FC Require Import Base.Res Region.Region Region.Collapse.

(** No law is assumed about [veq] (so never-equal NaN patterns are covered): with a remembered
    last index j, push returns (unchanged state, j) iff [veq v (item at j)], otherwise it pushes
    to the inner region and remembers the new index; with no remembered index it always pushes. *)
Theorem C11_collapse_spec : forall (R : Region) (veq : val R -> val R -> bool) (SP : RSpec R), RegionOK R ->
  forall (s : st R) (last : option (idx R)) (v : val R), inv s ->
  (forall j, last = Some j -> valid s j) ->
  let x := (s, last) in
  let fresh := let* '(s', i) := push R s v in Ok (s', Some i, i) in
  match last with
  | Some j => exists w, read R s j = Ok w /\ push (collapse R veq) x v = (if veq v w then Ok (x, j) else fresh)
  | None => push (collapse R veq) x v = fresh
  end.
Proof. exact (@collapse_push_spec). Qed.

(** the dedup memory is reset by default / clear / merge *)
Theorem C11_no_memory_after_reset : forall (R : Region) veq s l,
  snd (dflt (collapse R veq)) = None /\ snd (clear (collapse R veq) s) = None /\ snd (merge (collapse R veq) l) = None.
Proof. intros. repeat split. Qed.

(** Whole-history form.  Pushing ANY sequence [vs] (from a state whose remembered index [last] reads the item
    [prev]; from a fresh region both are [None]) hands the inner region exactly [compress R veq prev vs]: the sequence
    with every item dropped that equals the item remembered at that moment, and nothing else dropped -- so an equal
    successor stores nothing new, a different one is stored, and an item is never collapsed into anything but the
    remembered (immediately preceding stored) item. *)
From FC Require Import Region.CollapseHistory.
Theorem C11_history : forall (R : Region) (veq : val R -> val R -> bool) (SP : RSpec R) (H : RegionOK R)
  (vs : list (val R)) (s : st R) (last : option (idx R)) (prev : option (val R)) (x' : st (collapse R veq)) is,
  inv s -> link s last prev -> Forall (dom s) vs ->
  push_all (collapse R veq) (s, last) vs = Ok (x', is) ->
  exists js, push_all R s (compress R veq prev vs) = Ok (fst x', js).
Proof. exact (@collapse_history). Qed.

(** never-equal values (NaN-like) are all stored; a run of one reflexively-equal value is stored once *)
Theorem C11_never_equal_all_stored : forall (R : Region) (veq : val R -> val R -> bool) prev vs,
  (forall a b, veq a b = false) -> compress R veq prev vs = vs.
Proof. exact (@compress_never_equal). Qed.
Theorem C11_run_stored_once : forall (R : Region) (veq : val R -> val R -> bool) v n,
  veq v v = true -> compress R veq None (repeat v (S n)) = [v].
Proof. exact (@compress_run). Qed.
