(** C11 CollapseSequence collapses exactly consecutive equal items, nothing else. *)
From FC Require Import Base.Res Region.Region Region.Collapse.

(** No law is assumed about [veq] (so never-equal NaN patterns are covered): with a remembered
    last index j, push returns (unchanged state, j) iff [veq v (item at j)], otherwise it pushes
    to the inner region and remembers the new index; with no remembered index it always pushes. *)
Theorem C11_collapse_spec : forall (R : Region) (veq : val R -> val R -> bool) (SP : RSpec R), RegionOK R ->
  forall (s : st R) (last : option (idx R)) (v : val R), inv s ->
  (forall j, last = Some j -> valid s j) ->
  let x := (s, last) in
  let fresh := let* '(s', i) := push R s v in Ok (s', Some i, i) in
  match last with
  | Some j => exists w, read R s j = Ok w /\ push (collapse R veq) x v = (if veq v w then Ok (x, j) else fresh)
  | None => push (collapse R veq) x v = fresh
  end.
Proof. exact (@collapse_push_spec). Qed.

(** the dedup memory is reset by default / clear / merge *)
Theorem C11_no_memory_after_reset : forall (R : Region) veq s l,
  snd (dflt (collapse R veq)) = None /\ snd (clear (collapse R veq) s) = None /\ snd (merge (collapse R veq) l) = None.
Proof. intros. repeat split. Qed.
