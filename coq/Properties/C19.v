(** C19 Index compression delivers the documented space bounds. *)
From FC Require Import Base.Res Index.IC Index.Stride Index.StrideOk.
Local Open Scope N_scope.

(** A sequence 0, s, 2s, ..., (c-1)s followed by r repeats of its last element, pushed into a
    fresh IndexOptimized, occupies no heap at all (for every s, c >= 2, r with representable
    elements). *)
Theorem C19_stride_free : forall s c r, (2 <= c)%nat -> s * N.of_nat (c - 1) < W ->
  ic_used index_optimized (fold_left io_push (strides s c ++ repeat (s * N.of_nat (c - 1)) r) io_default) = [0; 0].
Proof. exact io_stride_free. Qed.

(** The spill list costs 4 bytes per entry while values fit in u32 and 8 bytes per entry from
    the first larger value on ([take_small] splits the sequence at that point). *)
Theorem C19_spill_cost : forall l,
  il_used (fold_left il_push l il_default) =
  [4 * N.of_nat (length (fst (take_small l))); 8 * N.of_nat (length (snd (take_small l)))].
Proof. exact il_cost_rule. Qed.

(** While the stride accepts, nothing is spilled (the stride-matching prefix is free). *)
Theorem C19_prefix_free : forall o x, il_is_empty (spilled o) = true -> fst (stride_push (strided o) x) = true ->
  spilled (io_push o x) = spilled o /\ strided (io_push o x) = snd (stride_push (strided o) x).
Proof. exact io_push_strided. Qed.

(** The rule for EVERY sequence pushed into a fresh IndexOptimized (no shape assumed): [stride_split] cuts the
    sequence into the longest prefix the stride absorbs and the remainder; the heap bytes are exactly the
    spill-list charge of the remainder — 4 per entry up to the first value that needs 64 bits, 8 per entry
    from there on — and nothing for the prefix. *)
From FC Require Import Index.StrideCost.
Theorem C19_any_sequence_cost : forall l,
  ic_used index_optimized (fold_left io_push l io_default) =
  [4 * N.of_nat (length (fst (take_small (snd (stride_split SEmpty l)))));
   8 * N.of_nat (length (snd (take_small (snd (stride_split SEmpty l)))))].
Proof. exact io_cost_rule. Qed.

(** ... where the prefix really is the stride-matching prefix: the sequence is prefix ++ remainder, the prefix
    has the documented shape (empty, [0], or 0, s, 2s, ... followed by repeats of its last element), and it is
    maximal: the first element of the remainder is one the stride refuses. *)
Theorem C19_split_is_stride_prefix : forall l,
  let st := fst (stride_split SEmpty l) in let rest := snd (stride_split SEmpty l) in
  l = stride_abs st ++ rest /\ stride_shape (stride_abs st) /\
  match rest with [] => True | x :: _ => fst (stride_push st x) = false end.
Proof. exact io_cost_split. Qed.

(** No heap at all exactly when the whole sequence was absorbed. *)
Theorem C19_free_iff_absorbed : forall l,
  ic_used index_optimized (fold_left io_push l io_default) = [0; 0] <-> snd (stride_split SEmpty l) = [].
Proof. exact io_cost_zero_iff. Qed.

(** Exactly the documented shapes are free: a sequence of representable values occupies no heap at all IF AND
    ONLY IF it is empty, [0], or 0, s, 2s, ... optionally followed by repeats of its last element. *)
Theorem C19_free_iff_documented_shape : forall l, Forall (fun x => x < W) l ->
  (ic_used index_optimized (fold_left io_push l io_default) = [0; 0] <->
   (l = [] \/ l = [0] \/ exists s c r, (2 <= c)%nat /\ l = strides s c ++ repeat (s * N.of_nat (c - 1)) r)).
Proof. exact io_free_iff_shape. Qed.

(** Consequently a FlatStack with the optimised index container over a dense-index region
    (ConsecutiveIndexPairs over any region with dense pair indices) spends ZERO heap bytes on its own
    indices, for ANY number of copied items (below 2^64): the region hands out 0, 1, 2, ... (C12) and
    IndexOptimized absorbs that sequence in its stride without ever spilling. *)
From FC Require Import Region.Region Region.Consec Stack.FlatStack Stack.FlatStackDense.
Theorem C19_flatstack_dense_free : forall (R : Region) (SP : RSpec R) (H : RegionOK R) (PI : PairIdx R) (D : Dense R)
  (O : IC nat) (HO : ICOk O) (chk : bool) (vs : list (val (consec R O chk))) x,
  N.of_nat (length vs) <= W ->
  fs_extend (fs_default (consec R O chk) (ic_nat index_optimized)) vs = Ok x ->
  ic_used (ic_nat index_optimized) (snd x) = [0; 0].
Proof. exact (@fs_dense_index_free). Qed.

(** The same over a ColumnsRegion (any cell region, rows of any widths, empty rows included): its row indices are
    0, 1, 2, ... (C12), so the stack's optimised index container never spills. *)
From FC Require Import Region.Columns Stack.FlatStackColumns.
Theorem C19_flatstack_columns_free : forall (R : Region) (SP : RSpec R) (H : RegionOK R)
  (O : IC nat) (HO : ICOk O) (chk : bool) (vs : list (val (columns R O chk))) x,
  N.of_nat (length vs) <= W ->
  fs_extend (fs_default (columns R O chk) (ic_nat index_optimized)) vs = Ok x ->
  ic_used (ic_nat index_optimized) (snd x) = [0; 0].
Proof. exact (@fs_columns_index_free). Qed.
