(** C02 Append-only: an issued index keeps reading the same item until clear. *)
From FC Require Import Base.Res Index.IC Index.Stride Index.StrideOk Region.Region Region.History Huffman.Huffman.
From FC Require Huffman.EncoderOk Huffman.FrameOk.

(** Frame: a successful push of ANY value (covered or not) keeps every valid index valid and
    reading what it read before. *)
Theorem C02_push_frame : forall (R : Region) (SP : RSpec R), RegionOK R ->
  forall s v s' i, inv s -> push R s v = Ok (s', i) ->
  forall j, valid s j -> valid s' j /\ read R s' j = read R s j.
Proof. intros R SP H s v s' i Hs Hp. exact (proj1 (proj2 (proj2 (@push_safe R SP H s v s' i Hs Hp)))). Qed.

(** History form: in every state reached by a covered history, ALL indices issued since the last
    clear (the whole log, not just the latest) still read the values they were issued for. *)
Theorem C02_history : forall (R : Region) (SP : RSpec R), RegionOK R ->
  forall (ops : list (op R)) s log tr, inv s -> log_ok s log -> covered ops s ->
  exists s' log' tr', run ops s log tr = Ok (s', log', tr') /\ inv s' /\ log_ok s' log'.
Proof. exact (@run_ok). Qed.

(** Index containers only ever append to the sequence they represent, across the stride -> spill
    and u32 -> u64 representation switches. *)
Theorem C02_index_optimized_appends : forall o x, io_wf o ->
  io_wf (io_push o x) /\ io_abs (io_push o x) = io_abs o ++ [x].
Proof. exact (@io_push_spec). Qed.
Theorem C02_index_list_appends : forall l x, il_abs (il_push l x) = il_abs l ++ [x].
Proof. exact (@il_push_abs). Qed.

(** The bit-packed codec appends into a shared partial byte (it pops the trailing byte and
    re-emits it with the new bits behind it): every earlier index -- a bit range ending within the
    old bit string -- still reads exactly what it read, at every alignment of the old end, for code
    lengths up to 57 bits, whatever the decode table is; and the new index is the range right
    behind the old bits, of length the sum of the code lengths. *)
Theorem C02_huffman_append_only : forall h bytes bits stats v s' i,
  EncoderOk.wfst bytes bits -> EncoderOk.covered (enc h) v ->
  push huffman_region (HEnc h bytes bits, stats) v = Ok (s', i) ->
  i = (bits, bits + list_sum (map (EncoderOk.clen (enc h)) v)) /\
  forall j : nat * nat, fst j <= snd j -> snd j <= bits ->
    read huffman_region s' j = read huffman_region (HEnc h bytes bits, stats) j.
Proof. exact FrameOk.huffman_region_frame. Qed.
