(** C20 All accepted input forms of a value are interchangeable.

    The Rust impls for owned / & / && / array / slice / Vec / PushIter inputs of one region all
    delegate to one body (they differ in how the elements are borrowed, not in what is stored);
    the model has ONE [push] for them and the correspondence check exercises every typed form
    against a twin fed the canonical form.  The forms with a body of their own are the read-item
    inputs (region-backed and owned-borrowed [ReadSlice] / [ReadColumns], and read items nested in
    them); for these the model has separate definitions ([push_item]) and the theorem below says
    they return the same index and the same successor state as [push] of the denoted value. *)
From FC Require Import Base.Res Index.IC Region.Region Region.Slice Region.Columns Region.Items Region.ItemsOk.

Theorem C20_read_item_form : forall (R : Region) (SP : RSpec R) (I : Items R) (IS : ISpec I), ItemsOK R I ->
  forall s x v, iwf x -> own I x = Ok v -> push_item I s x = push R s v.
Proof. intros R SP I IS H. exact (@push_item_ok R SP I IS H). Qed.

Theorem C20_slice_forms : forall R (SP : RSpec R) (H : RegionOK R) (O : IC (idx R)) (HO : ICOk O) (I : Items R) (IS : ISpec I),
  ItemsOK R I -> ItemsOK (slice R O) (slice_items O I).
Proof. exact (@slice_items_ok). Qed.

Theorem C20_columns_forms : forall R (SP : RSpec R) (H : RegionOK R) (O : IC nat) (HO : ICOk O) chk (I : Items R) (IS : ISpec I),
  ItemsOK R I -> ItemsOK (columns R O chk) (columns_items O chk I).
Proof. exact (@columns_items_ok). Qed.
