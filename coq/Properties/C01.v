(** C01 Round trip.  Only statements, each closed by [exact]; proofs live in Region/*. *)
From FC Require Import Base.Res Index.IC Region.Region Region.Owned Region.Simple Region.TupleN Region.Slice
  Region.Collapse Region.Consec Region.Columns Region.History Huffman.Huffman Huffman.HuffRegion
  Model.Wire Model.Catalogue Model.CatalogueOk.

(** For every region meeting the contract and every value it covers, push succeeds and the
    returned index reads back the pushed value. *)
Theorem C01_roundtrip : forall (R : Region) (SP : RSpec R), RegionOK R ->
  forall s v, inv s -> dom s v -> exists s' i, push R s v = Ok (s', i) /\ read R s' i = Ok v.
Proof. intros R SP H. exact (@push_ok R SP H). Qed.

(** ... in every state reachable by any covered history of pushes and clears: the history never
    panics and every index issued since the last clear reads the value it was issued for. *)
Theorem C01_reachable : forall (R : Region) (SP : RSpec R), RegionOK R ->
  forall ops : list (op R), covered ops (dflt R) ->
  exists s log tr, run ops (dflt R) [] [] = Ok (s, log, tr) /\ inv s /\ log_ok s log.
Proof. exact (@reachable_ok). Qed.

(** The induction over compositions: every combinator preserves the contract. *)
Theorem C01_owned : forall T, RegionOK (owned T).
Proof. exact (@owned_ok). Qed.
Theorem C01_mirror : forall T, RegionOK (mirror T).
Proof. exact (@mirror_ok). Qed.
Theorem C01_vec_region : forall T, RegionOK (vec_region T).
Proof. exact (@vec_region_ok). Qed.
Theorem C01_string : forall (R : Region) (wf : val R -> Prop) (SP : RSpec R), RegionOK R ->
  @RegionOK (string_region R) (@string_spec R wf SP).
Proof. exact (@string_ok). Qed.
Theorem C01_option : forall (R : Region) (SP : RSpec R), RegionOK R -> RegionOK (option_region R).
Proof. exact (@option_ok). Qed.
Theorem C01_result : forall (A B : Region) (SA : RSpec A), RegionOK A -> forall SB : RSpec B, RegionOK B ->
  RegionOK (result_region A B).
Proof. exact (@result_ok). Qed.
Theorem C01_tuple2 : forall (A B : Region) (SA : RSpec A), RegionOK A -> forall SB : RSpec B, RegionOK B ->
  RegionOK (tuple2 A B).
Proof. exact (@tuple2_ok). Qed.
(** Tuple regions of higher arity, written flat as the macro expands them (arities 3 and 5 are the ones the
    catalogue runs): the contract holds for them, transported along the re-association onto nested pairs that
    the harness applies to their values, indices and serialised states. *)
Theorem C01_tuple3 : forall (A B C : Region) (SA : RSpec A), RegionOK A -> forall SB : RSpec B, RegionOK B ->
  forall SC : RSpec C, RegionOK C -> RegionOK (tuple3 A B C).
Proof. exact (@tuple3_ok). Qed.
Theorem C01_tuple5 : forall (A B C D E : Region) (SA : RSpec A), RegionOK A -> forall SB : RSpec B, RegionOK B ->
  forall SC : RSpec C, RegionOK C -> forall SD : RSpec D, RegionOK D -> forall SE : RSpec E, RegionOK E ->
  RegionOK (tuple5 A B C D E).
Proof. exact (@tuple5_ok). Qed.
Theorem C01_tuple3_is_nested_pairs : forall (A B C : Region) (s : st (tuple3 A B C)) v i,
  push (tuple2 A (tuple2 B C)) (nest3 s) (nest3 v) = rmap (fun p => (nest3 (fst p), nest3 (snd p))) (push (tuple3 A B C) s v) /\
  read (tuple2 A (tuple2 B C)) (nest3 s) (nest3 i) = rmap nest3 (read (tuple3 A B C) s i) /\
  nest3 (clear (tuple3 A B C) s) = clear (tuple2 A (tuple2 B C)) (nest3 s).
Proof.
  intros A B C s v i. split; [|split].
  - exact (iso_push (tuple3_iso A B C) s v).
  - exact (iso_read (tuple3_iso A B C) s i).
  - exact (iso_clear (tuple3_iso A B C) s).
Qed.
Theorem C01_slice : forall (R : Region) (O : IC (idx R)) (SP : RSpec R), RegionOK R -> forall HO : ICOk O,
  RegionOK (slice R O).
Proof. exact (@slice_ok). Qed.
(** [CollapseSequence] round-trips exactly when its equality test implies equality (integers,
    bytes, strings); for IEEE floats the statement is C11's [collapse_push_spec]. *)
Theorem C01_collapse : forall (R : Region) (veq : val R -> val R -> bool) (SP : RSpec R), RegionOK R ->
  (forall v w, veq v w = true -> v = w) -> RegionOK (collapse R veq).
Proof. exact (@collapse_ok). Qed.
(** [ConsecutiveIndexPairs] needs an inner region whose pair indices are dense; [CollapseSequence]
    is not (known finding D8: the composition type-checks in Rust all the same). *)
Theorem C01_consec : forall (R : Region) (SP : RSpec R), RegionOK R ->
  forall (PI : PairIdx R) (D : Dense R) (O : IC nat) (HO : ICOk O) (chk : bool), RegionOK (consec R O chk).
Proof. exact (@consec_ok). Qed.
Theorem C01_columns : forall (R : Region) (SP : RSpec R), RegionOK R ->
  forall (O : IC nat) (HO : ICOk O) (chk : bool), RegionOK (columns R O chk).
Proof. exact (@columns_ok). Qed.

(** The Huffman container meets the contract too (its own statements are C06); [dom] = every symbol
    has a code, [mergeable] = merged code lengths within the 57 bits of the encoder register. *)
Theorem C01_huffman : RegionOK huffman_region.
Proof. exact huffman_ok. Qed.

(** The tie to the terms the correspondence runs: EVERY region of the catalogue -- the [entry]
    function that is extracted to OCaml and executed against the crate -- meets the contract, except
    entry 29 (ConsecutiveIndexPairs directly over CollapseSequence: known finding D8) and entry 21
    (CollapseSequence over f64, where IEEE == is not equality; its statement is C11). *)
Theorem C01_catalogue : forall chk szs n e, entry chk szs n = Some e -> n <> 21%N -> n <> 29%N ->
  exists SP : RSpec (mr e), @RegionOK (mr e) SP.
Proof. exact catalogue_contract. Qed.
