(** C15 Equality and ordering of read items match those of the owned values. *)
From FC Require Import Base.Res Index.IC Region.Region Region.Owned Region.Simple Region.Slice
  Region.Items Region.ItemsOk Region.Compare.

(** Comparing two well-formed slice read items -- each either region-backed or borrowed from an
    owned Vec, from the same or from different regions -- yields the lexicographic comparison of
    the values they denote, and that order is total. *)
Theorem C15_slice_cmp : forall (R : Region) (SP : RSpec R) (H : RegionOK R) (O : IC (idx R)) (HO : ICOk O)
  (I : Items R) (IS : ISpec I) (HI : ItemsOK R I) (C : ItemOrd I) (HC : ItemOrdOK R I C),
  ItemOrdOK (slice R O) (slice_items O I) (slice_ord O C).
Proof. exact (@slice_ord_ok). Qed.

(** unfolding the law: for all well-formed x y denoting v w, cmp x y = lex_cmp (vcmp C) v w *)
Theorem C15_cmp_is_cmp_of_owned : forall (R : Region) (SP : RSpec R) (I : Items R) (IS : ISpec I) (C : ItemOrd I),
  ItemOrdOK R I C -> forall x y v w, iwf x -> iwf y -> own I x = Ok v -> own I y = Ok w ->
  icmp C x y = Ok (vcmp C v w).
Proof. intros R SP I IS C H. exact (@icmp_ok R SP I IS C H). Qed.

(** lexicographic comparison over a total order is a total order: eq <-> cmp = Eq (reflexive),
    antisymmetric, transitive *)
Theorem C15_lex_total : forall A (cmp : A -> A -> comparison), TotalCmp cmp -> TotalCmp (lex_cmp cmp).
Proof. exact (@lex_total). Qed.

Theorem C15_owned : forall T ecmp, TotalCmp ecmp -> ItemOrdOK (owned T) (owned_items T) (owned_ord ecmp).
Proof. exact (@owned_ord_ok). Qed.
Theorem C15_option : forall R (SP : RSpec R) (I : Items R) (IS : ISpec I) (C : ItemOrd I), ItemsOK R I ->
  ItemOrdOK R I C -> ItemOrdOK (option_region R) (option_items I) (option_ord C).
Proof. exact (@option_ord_ok). Qed.
Theorem C15_result : forall A B (SA : RSpec A) (SB : RSpec B) (IA : Items A) (IB : Items B) (WA : ISpec IA) (WB : ISpec IB)
  (CA : ItemOrd IA) (CB : ItemOrd IB), ItemOrdOK A IA CA -> ItemOrdOK B IB CB ->
  ItemOrdOK (result_region A B) (result_items IA IB) (result_ord CA CB).
Proof. exact (@result_ord_ok). Qed.
Theorem C15_tuple2 : forall A B (SA : RSpec A) (SB : RSpec B) (IA : Items A) (IB : Items B) (WA : ISpec IA) (WB : ISpec IB)
  (CA : ItemOrd IA) (CB : ItemOrd IB), ItemOrdOK A IA CA -> ItemOrdOK B IB CB ->
  ItemOrdOK (tuple2 A B) (tuple2_items IA IB) (tuple2_ord CA CB).
Proof. exact (@tuple2_ord_ok). Qed.

(** The tie to the terms the correspondence runs: for EVERY region of the catalogue whose Rust read
    item is ordered (the model records the comparison in [m_ord]), except entries 21 and 29,
    comparing two well-formed read items -- in any representation -- yields the comparison of the
    owned values, and that comparison is a total order. *)
From FC Require Import Model.Wire Model.Catalogue Model.CatalogueOk.
Theorem C15_catalogue : forall chk szs n e, entry chk szs n = Some e -> n <> 21%N -> n <> 29%N ->
  exists (SP : RSpec (mr e)) (IS : ISpec (mi e)),
    forall C, m_ord e = Some C -> @ItemOrdOK (mr e) SP (mi e) IS C.
Proof.
  intros chk szs n e He H21 H29. destruct (catalogue_full chk szs He H21 H29) as (SP & IS & _ & _ & HO & _).
  exists SP, IS. exact HO.
Qed.
