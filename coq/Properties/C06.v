(** C06 Huffman container.
    Proved here, for the executable word-level model of src/impls/huffman_container.rs:
    - the code lengths are those of an optimal prefix code for the merged statistics (for every
      count profile), a lone symbol gets one bit;
    - the bit iterator yields exactly the bits of any range at every alignment, and push_symbols
      (u64 encoder register, peel and re-emit of the trailing partial byte) appends exactly the code
      words at every alignment;
    - the decoder (u16 register, restocking, nested table walk, end-of-item and partial-byte paths)
      decodes any concatenation of code words exactly;
    - the tables that create_from builds are correct for ANY statistics: the canonical codes over
      the sorted levels are prefix-free (Kraft equality of the tree's depths), insert_decode fills
      the nested 256-entry tables so that every stream starting with a code word walks to its
      symbol, exactly the symbols of the statistics have a code ([C06_tables_correct]);
    - hence push followed by read returns the pushed symbols at every alignment, for every
      container built by merge_regions, in every state any history of pushes and clears reaches
      ([C06_roundtrip_every_alignment], [C06_merged_history]); a symbol outside the statistics is
      refused by a panic ([C06_refusal]); the accepted sequences are exactly those over the
      symbols pushed into the source regions ([C06_accepts_exactly_statistics]);
    - raw mode (before any merge, after clear) round-trips everything.
    The one hypothesis: code lengths of at most 57 bits ([mergeable] = [bound]), the limit of the
    64-bit encoder register that the crate's own comment concedes -- and it is DISCHARGED for every
    container whose source regions counted fewer than 1 548 008 755 920 symbols in total
    ([C06_mergeable_from_statistics]: a greedily built tree of height h weighs at least Fib(h+2)). *)
From FC Require Import Base.Res Region.Region Huffman.Huffman Huffman.HuffOpt Huffman.HuffTree Huffman.Bits Huffman.BitIter Huffman.EncoderOk Huffman.DecoderOk Huffman.RoundTrip Huffman.TableIns Huffman.TableOk Huffman.HuffRegion Huffman.HuffDepth Huffman.HuffBound.
From FC Require Region.History Model.Wire Model.Machine.
From Coq Require Import ZArith Permutation Sorted Lia.

(** The greedy (Huffman) cost on the sorted weights is a lower bound for EVERY pairing of the
    weights with EVERY multiset of leaf depths realisable by a binary tree. *)
Theorem C06_greedy_is_lower_bound : forall n ps ws,
  length ps = n -> real (map snd ps) -> Permutation ws (map fst ps) -> StronglySorted le ws ->
  hcost n ws <= cost ps.
Proof. exact huffman_optimal. Qed.

(** The lengths computed by the model of Huffman::create_from (BinaryHeap pops by the derived Ord,
    tree vector, stack DFS, stable level sort), for ANY statistics with at least two symbols:
    (1) they are the leaf depths of a binary tree, so a prefix code with these lengths exists
        (the Kraft sum is exactly 1) and every length is >= 1;
    (2) their total cost sum(count * length) is minimal among all such assignments. *)
Theorem C06_lengths_optimal : forall counts : list (sym * Z),
  2 <= length counts -> NoDup (map fst counts) -> Forall (fun sc : sym * Z => (0 <= snd sc)%Z) counts ->
  real (map fst (levels_of counts)) /\
  forall ps, length ps = length counts -> real (map snd ps) ->
    Permutation (map fst ps) (map (fun sc : sym * Z => Z.to_nat (snd sc)) counts) ->
    lv_cost counts (levels_of counts) <= cost ps.
Proof. exact model_lengths_optimal. Qed.

(** a single-symbol alphabet gets a one-bit code (at least one bit per symbol) *)
Theorem C06_single_symbol : forall s c, levels_of [(s, c)] = [(1, s)].
Proof. exact single_symbol_one_bit. Qed.

(** the tree the heap loop builds: its cost is the forest's cost plus the greedy merge cost *)
Theorem C06_build_spec : forall fuel heap tv ts,
  Forall2 (ent_ok tv) heap ts -> heap <> [] -> length heap <= fuel ->
  let tv' := build fuel heap tv in
  exists t root, nth_error tv' (length tv' - 1) = Some root /\ Rep tv' root t /\
    tcost t 0 = sum_tcost ts + fcost ts /\
    Permutation (lsw t) (concat (map lsw ts)) /\
    length tv' = length tv + 2 * length heap - 1.
Proof. exact build_spec. Qed.

(** BitIterator is exact at EVERY alignment: for every bit range [lo, hi) inside a byte string --
    whatever byte offsets it starts and ends at, spanning 0, 1 or many whole bytes -- the chunks
    it yields concatenate to exactly the bits lo..hi of the string; every chunk holds 1..8 bits and
    its value fits in them (the place where the u8 mask overflowed, D2). *)
Theorem C06_bit_iterator_exact : forall bytes fuel lo hi,
  lo <= hi -> hi <= 8 * length bytes -> hi - lo < fuel ->
  exists cs, bit_chunks fuel bytes lo hi = Ok cs /\
    concat (map chunk_bits cs) = firstn (hi - lo) (skipn lo (bitstr bytes)) /\
    Forall (fun c : N * nat => 1 <= snd c <= 8 /\ (fst c < 2 ^ N.of_nat (snd c))%N) cs.
Proof. exact bit_chunks_spec. Qed.

(** The encoder side is exact at EVERY alignment: whatever partial byte the previous item left
    (the container holds [bits] valid bits in ceil(bits/8) bytes), pushing symbols that the code
    table covers (code lengths 1..57, values fitting their length) extends the valid bit string by
    EXACTLY the concatenation of their code words -- earlier bits are untouched (append-only, C02) --
    keeps the state well formed, and returns the bit range (old length, new length): an item
    occupies the sum of its symbols' code lengths. *)
Theorem C06_push_symbols_exact : forall h bytes bits syms, wfst bytes bits -> covered (enc h) syms ->
  exists bytes' bits', push_symbols h bytes bits syms = Ok (bytes', bits', (bits, bits')) /\
    wfst bytes' bits' /\
    vb bytes' bits' = vb bytes bits ++ concat (map (cw (enc h)) syms) /\
    bits' = bits + list_sum (map (clen (enc h)) syms).
Proof. exact push_symbols_spec. Qed.

(** The decoder (u16 register restocked from the iterator's chunks, walk through the nested
    256-entry tables, end-of-item and trailing-partial-byte paths) decodes a concatenation of code
    words to exactly the symbols and then stops -- relative to [tab_ok]: the tables answer a code
    word followed by anything with (symbol, its length). *)
Theorem C06_decoder_exact : forall h C bytes lo hi syms ws, tab_ok (dtab h) C ->
  Forall2 (fun s w => In (s, w) C) syms ws -> lo <= hi -> hi <= 8 * length bytes ->
  firstn (hi - lo) (skipn lo (bitstr bytes)) = concat ws ->
  decode_range h bytes lo hi = Ok syms.
Proof. exact decode_range_spec. Qed.

(** Round trip at EVERY alignment (relative to [tab_ok] for the container's own tables): push
    covered symbols behind any bit string, decode the returned range, get the symbols back --
    empty items, items inside one byte and items spanning many bytes alike. *)
Theorem C06_roundtrip_every_alignment : forall h bytes bits syms, wfst bytes bits -> covered (enc h) syms ->
  tab_ok (dtab h) (codes (enc h)) ->
  exists bytes' bits', push_symbols h bytes bits syms = Ok (bytes', bits', (bits, bits')) /\
    wfst bytes' bits' /\ decode_range h bytes' bits bits' = Ok syms.
Proof. exact huffman_roundtrip. Qed.

(** raw mode (before any merge and after clear) stores the symbols themselves *)
Theorem C06_raw_roundtrip : forall raw stats v,
  exists s' i, push huffman_region (HRaw raw, stats) v = Ok (s', i) /\ read huffman_region s' i = Ok v.
Proof.
  intros raw stats v. eexists _, _. split; [reflexivity|]. cbn [read huffman_region fst snd].
  apply sub_app_new.
Qed.
Theorem C06_clear_is_raw : forall x, fst (clear huffman_region x) = HRaw [].
Proof. reflexivity. Qed.

(** The tables [create_from] builds, for ANY statistics (distinct symbols, non-negative counts) whose
    code lengths stay within 57 bits: every stream that starts with a code word walks the nested
    tables to (its symbol, its length); every symbol of the statistics has a code of 1..57 bits whose
    value fits; no other symbol has a code. *)
Theorem C06_tables_correct : forall counts, NoDup (map fst counts) ->
  Forall (fun sc : sym * Z => (0 <= snd sc)%Z) counts ->
  Forall (fun ls : nat * sym => fst ls <= 57) (levels_of counts) ->
  let h := create_from counts in
  tab_ok (dtab h) (codes (enc h)) /\
  (forall syms, Forall (fun s => In s (map fst counts)) syms -> covered (enc h) syms) /\
  (forall s, ~ In s (map fst counts) -> lookup_code s (enc h) = None).
Proof. exact create_from_ok. Qed.

(** The Huffman container meets the region contract: round trip, frame (append-only), clear,
    merge, for every state -- so every generic theorem and every combinator applies to it. *)
Theorem C06_region_contract : RegionOK huffman_region.
Proof. exact huffman_ok. Qed.

(** Every container built by merge_regions from well-formed regions (code lengths within the
    register): ANY history of pushes (of sequences whose symbols have codes) and clears runs without
    panic, and in every state it reaches every index issued since the last clear reads back exactly
    the pushed symbols. *)
Theorem C06_merged_history : forall l (ops : list (History.op huffman_region)),
  Forall inv l -> mergeable l -> History.covered ops (merge huffman_region l) ->
  exists s' log' tr', History.run ops (merge huffman_region l) [] [] = Ok (s', log', tr') /\ inv s' /\ History.log_ok s' log'.
Proof.
  intros l ops Hl Hm Hc.
  exact (@History.run_ok huffman_region huffman_spec huffman_ok ops (merge huffman_region l) [] []
           (@merge_inv huffman_region huffman_spec huffman_ok l Hl Hm) (Forall_nil _) Hc).
Qed.

(** ... and it accepts exactly the sequences over the symbols that occur in the statistics of the
    regions it was built from (the symbols pushed into them). *)
Theorem C06_accepts_exactly_statistics : forall l v, Forall inv l -> mergeable l ->
  (dom (merge huffman_region l) v <-> Forall (fun x => exists r, In r l /\ In x (map fst (snd r))) v).
Proof. exact merged_dom. Qed.
Theorem C06_statistics_are_pushed_symbols : forall v m k,
  In k (map fst (count_syms m v)) <-> In k v \/ In k (map fst m).
Proof. exact count_syms_keys. Qed.

(** a sequence containing a symbol without a code is refused by a panic at push; nothing is stored *)
Theorem C06_refusal : forall h bytes bits stats v, ~ dom (HEnc h bytes bits, stats) v ->
  push huffman_region (HEnc h bytes bits, stats) v = Panic.
Proof. exact huffman_refuses. Qed.

(** ... and the refusal is a CLEAN one (D11): in the history machine the correspondence runs against the crate, a
    refused push emits the panic observation and leaves every slot -- state and issued indices -- exactly as it was,
    so every earlier item reads as before and later pushes continue where the accepted ones ended. *)
Theorem C06_refusal_is_clean : forall (M : Model.Wire.MRegion) sl k f u v,
  Model.Wire.of_u (Model.Wire.mw M) u = Some v ->
  push (Model.Wire.mr M) (Model.Machine.s_st (@Model.Machine.get_slot M sl k)) v = Panic ->
  @Model.Machine.step M sl (Model.Machine.OTryPush k f u) = ([Model.Machine.BPanic], Some sl).
Proof. intros M sl k f u v Hu Hp. cbn [Model.Machine.step]. rewrite Hu, Hp. reflexivity. Qed.

(** non-vacuity: a concrete merged container satisfies the hypotheses *)
Example C06_nonvacuous :
  let src : hstate := (HRaw [1; 2; 2; 3; 3; 3; 3; 7]%N, count_syms [] [1; 2; 2; 3; 3; 3; 3; 7]%N) in
  Forall inv [src] /\ mergeable [src] /\ dom (merge huffman_region [src]) [3; 7; 1; 2]%N.
Proof.
  split; [|split].
  - constructor; [|constructor]. split; [|exact I]. vm_compute. repeat constructor.
  - vm_compute. repeat constructor.
  - vm_compute. repeat constructor; discriminate.
Qed.

(** The depth of the code is bounded by the size of the statistics: for counts >= 1 with a total below
    G(58) = Fib(60), every code length is at most 57 (the tree create_from builds has height h with
    G(h) <= total, because in a greedily merged tree every node outweighs each child of its sibling). *)
Theorem C06_short_codes_from_total : forall counts, Forall (fun sc : sym * Z => (1 <= snd sc)%Z) counts ->
  total_count counts < G 58 -> Forall (fun ls : nat * sym => fst ls <= 57) (levels_of counts).
Proof. exact small_total_short_codes. Qed.

(** ... hence the one hypothesis of the contract holds for every merge of regions that counted fewer
    than 1 548 008 755 920 symbols in total ... *)
Theorem C06_mergeable_from_statistics : forall l, Forall inv l ->
  (N.of_nat (total_count (merged_counts l)) < 1548008755920)%N -> mergeable l.
Proof. exact small_stats_mergeable. Qed.

(** ... and C06 holds for them WITHOUT any hypothesis about code lengths: any history of pushes of covered
    sequences and clears on the merged container runs without panic and every issued index reads back
    exactly the pushed symbols, at every bit alignment. *)
Theorem C06_history_unconditional : forall l (ops : list (History.op huffman_region)),
  Forall inv l -> (N.of_nat (total_count (merged_counts l)) < 1548008755920)%N ->
  History.covered ops (merge huffman_region l) ->
  exists s' log' tr', History.run ops (merge huffman_region l) [] [] = Ok (s', log', tr') /\ inv s' /\ History.log_ok s' log'.
Proof.
  intros l ops Hl Htot Hc. apply C06_merged_history; [exact Hl|apply small_stats_mergeable; assumption|exact Hc].
Qed.
