(** C06 Huffman container (theorems are added to this file as they are proved). *)
From FC Require Import Base.Res Region.Region Huffman.Huffman.

(** raw mode (before any merge and after clear) stores the symbols themselves *)
Theorem C06_raw_roundtrip : forall raw stats v,
  exists s' i, push huffman_region (HRaw raw, stats) v = Ok (s', i) /\ read huffman_region s' i = Ok v.
Proof.
  intros raw stats v. eexists _, _. split; [reflexivity|]. cbn [read huffman_region fst snd].
  apply sub_app_new.
Qed.
Theorem C06_clear_is_raw : forall x, fst (clear huffman_region x) = HRaw [].
Proof. reflexivity. Qed.
