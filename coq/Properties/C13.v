(** C13 Read-item accessors expose exactly their own item and fail-stop out of bounds. *)
From FC Require Import Base.Res Index.IC Region.Region Region.Slice Region.Columns Region.Items Region.ItemsOk Region.SliceIter.

(** Slice read items, region-backed ([RS_region s a b]) and borrowed from an owned Vec
    ([RS_owned l]): there are items [xs] denoting values [vs] (the item's own elements) such that
    iteration yields [xs], into_owned yields [vs], len / is_empty agree with [vs], [get k] is the
    k-th of them for k < len, and [get k] PANICS for every k >= len. *)
Theorem C13_slice_accessors : forall (R : Region) (SP : RSpec R) (H : RegionOK R) (O : IC (idx R)) (HO : ICOk O)
  (I : Items R) (IS : ISpec I) (HI : ItemsOK R I) (x : rslice R O), rs_wf x ->
  exists xs vs, rs_iter I x = Ok xs /\ denote xs vs /\ own (slice_items O I) x = Ok vs /\
    rs_len x = Ok (length vs) /\
    rs_is_empty x = Ok (match vs with [] => true | _ => false end) /\
    (forall k, k < length vs -> exists y v, rs_get I x k = Ok y /\ nth_error xs k = Some y /\
                                           nth_error vs k = Some v /\ iwf y /\ own I y = Ok v) /\
    (forall k, length vs <= k -> rs_get I x k = Panic).
Proof. exact (@rs_accessors). Qed.

(** Row read items of a columns region, both representations. *)
Theorem C13_columns_accessors : forall (R : Region) (SP : RSpec R) (H : RegionOK R) (O : IC nat) (chk : bool)
  (I : Items R) (IS : ISpec I) (HI : ItemsOK R I) (x : rcols R), rc_wf x ->
  exists xs vs, rc_iter I x = Ok xs /\ denote xs vs /\ own (columns_items O chk I) x = Ok vs /\
    rc_len x = length vs /\
    rc_is_empty x = (match vs with [] => true | _ => false end) /\
    (forall k, k < length vs -> exists y v, rc_get I x k = Ok y /\ nth_error xs k = Some y /\
                                           nth_error vs k = Some v /\ iwf y /\ own I y = Ok v) /\
    (forall k, length vs <= k -> rc_get I x k = Panic).
Proof. exact (@rc_accessors). Qed.

(** The item handed out for a valid index is well formed and denotes exactly what the region
    reads at that index (so the [vs] above are the pushed elements, by C01). *)
Theorem C13_index_denotes : forall (R : Region) (SP : RSpec R) (I : Items R) (IS : ISpec I), ItemsOK R I ->
  forall s i, inv s -> valid s i -> exists x, index I s i = Ok x /\ iwf x /\ own I x = read R s i.
Proof. intros R SP I IS H. exact (@index_ok R SP I IS H). Qed.

(** Iteration proper (D10): the iterator of a slice read item is an exact-size iterator -- before every
    [next] it reports exactly the number of items left, and what it yields is the list every other accessor
    is specified against. *)
Theorem C13_slice_iterator_exact : forall (R : Region) (SP : RSpec R) (H : RegionOK R) (O : IC (idx R)) (HO : ICOk O)
  (I : Items R) (IS : ISpec I) (HI : ItemsOK R I) (x : rslice R O), rs_wf x ->
  exists xs, rs_iter I x = Ok xs /\ rs_len x = Ok (length xs) /\
    ri_run I (S (length xs)) (rs_into_iter x) = Ok (combine (countdown (length xs)) xs, 0).
Proof. exact (@rs_iterator_exact). Qed.
