(** C04 String regions only ever hand out byte strings equal to a pushed, well-formed string. *)
From FC Require Import Base.Res Region.Region Region.Simple Region.History.

(** [wf] is the validity predicate of the input type ([&str] guarantees UTF-8); a string region
    over any byte region meeting the contract accepts every well-formed string and the index reads
    back exactly those bytes, which are well-formed. *)
Theorem C04_string_read_wf : forall (R : Region) (wf : val R -> Prop) (SP : RSpec R), RegionOK R ->
  forall (s : st (string_region R)) (v : val (string_region R)),
  @inv _ (@string_spec R wf SP) s -> @dom _ (@string_spec R wf SP) s v ->
  exists s' i, push (string_region R) s v = Ok (s', i) /\ read (string_region R) s' i = Ok v /\ wf v.
Proof. exact (@string_read_wf). Qed.

(** ... and stays so for every index issued since the last clear in every reachable state (the
    log only ever holds pushed, hence well-formed, values). *)
Theorem C04_reachable : forall (R : Region) (wf : val R -> Prop) (SP : RSpec R) (H : RegionOK R),
  forall ops : list (op (string_region R)), @covered _ (@string_spec R wf SP) ops (dflt (string_region R)) ->
  exists s log tr, run ops (dflt (string_region R)) [] [] = Ok (s, log, tr) /\
                   @inv _ (@string_spec R wf SP) s /\ @log_ok _ (@string_spec R wf SP) s log.
Proof. intros R wf SP H. exact (@reachable_ok (string_region R) (@string_spec R wf SP) (@string_ok R wf SP H)). Qed.
