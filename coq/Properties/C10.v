(** C10 merged regions start empty and work (the reserve half lives in the Reserve layer). *)
From FC Require Import Base.Res Index.IC Region.Region Region.Owned Region.Simple Region.Slice
  Region.Collapse Region.Consec Region.Columns Region.History.

Theorem C10_merge_inv : forall (R : Region) (SP : RSpec R), RegionOK R ->
  forall l, Forall inv l -> mergeable l -> inv (merge R l).
Proof. intros R SP H. exact (@merge_inv R SP H). Qed.

(** A region merged from ANY well-formed source regions answers every history exactly as a
    default region does (same indices, same reads). *)
Theorem C10_merge_fresh_history : forall (R : Region) (SP : RSpec R), RegionOK R -> MergeFresh R ->
  forall l (h : list (op R)) s log tr, Forall inv l -> mergeable l ->
  run h (merge R l) [] [] = Ok (s, log, tr) ->
  exists s', run h (dflt R) [] [] = Ok (s', log, tr) /\ sim s s'.
Proof. exact (@merge_fresh_history). Qed.

Theorem C10_owned : forall T, MergeFresh (owned T).
Proof. exact (@owned_merge_fresh). Qed.
Theorem C10_option : forall (R : Region) (SP : RSpec R), RegionOK R -> MergeFresh R -> MergeFresh (option_region R).
Proof. exact (@option_merge_fresh). Qed.
Theorem C10_slice : forall (R : Region) (O : IC (idx R)) (SP : RSpec R), RegionOK R -> MergeFresh R ->
  forall HO : ICOk O, MergeFresh (slice R O).
Proof. exact (@slice_merge_fresh). Qed.
Theorem C10_collapse : forall (R : Region) (veq : val R -> val R -> bool) (SP : RSpec R), RegionOK R ->
  MergeFresh R -> MergeFresh (collapse R veq).
Proof. exact (@collapse_merge_fresh). Qed.
Theorem C10_consec : forall (R : Region) (SP : RSpec R), RegionOK R -> forall (PI : PairIdx R) (D : Dense R),
  MergeFresh R -> forall (O : IC nat) (HO : ICOk O) (chk : bool), MergeFresh (consec R O chk).
Proof. exact (@consec_merge_fresh). Qed.
Theorem C10_columns : forall (R : Region) (SP : RSpec R), RegionOK R -> MergeFresh R ->
  forall (O : IC nat) (HO : ICOk O) (chk : bool), MergeFresh (columns R O chk).
Proof. exact (@columns_merge_fresh). Qed.

(** The tie to the terms the correspondence runs: for EVERY non-coded region of the catalogue (entries
    other than 21, 29 and the dictionary / Huffman entries 41-51, whose merged regions carry a
    dictionary or code table by design: C06, C07), a region merged from ANY well-formed regions is
    observationally a default region -- so by [C10_merge_fresh_history] every later history answers
    exactly as on Default::default(). *)
From FC Require Import Model.Wire Model.Catalogue Model.CatalogueOk.
Theorem C10_catalogue : forall chk szs n e, entry chk szs n = Some e -> structural n = true ->
  exists SP : RSpec (mr e), @RegionOK (mr e) SP /\
    forall l, Forall (@inv _ SP) l -> @sim _ SP (merge (mr e) l) (dflt (mr e)).
Proof. exact catalogue_merge_fresh. Qed.
