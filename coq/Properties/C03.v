(** C03 FlatStack is a faithful append-only sequence for every index container. *)
From FC Require Import Base.Res Index.IC Index.Stride Index.StrideOk Region.Region Stack.FlatStack.

Section C03.
  Variables (R : Region) (SP : RSpec R) (H : RegionOK R) (S : IC (idx R)) (HS : ICOk S).

  Theorem C03_default : fs_inv (fs_default R S) /\ fs_abs (fs_default R S) [].
  Proof. exact (@fs_default_ok R SP H S HS). Qed.

  (** copy appends exactly the copied value *)
  Theorem C03_copy : forall x vs v, fs_inv x -> fs_abs x vs -> dom (fst x) v ->
    exists x', fs_copy x v = Ok x' /\ fs_inv x' /\ fs_abs x' (vs ++ [v]).
  Proof. exact (@fs_copy_spec R SP H S HS). Qed.

  (** extend / from_iter are repeated copy: they append the whole batch in order *)
  Theorem C03_extend : forall ws x vs, fs_inv x -> fs_abs x vs -> Forall (dom (fst x)) ws ->
    exists x', fs_extend x ws = Ok x' /\ fs_inv x' /\ fs_abs x' (vs ++ ws).
  Proof. exact (@fs_extend_spec R SP H S HS). Qed.

  (** len, is_empty, iteration, cloned iterators (suffixes), get(i) for i < len agree with the
      represented sequence, and get(i) PANICS for every i >= len *)
  Theorem C03_observers : forall x vs, fs_inv x -> fs_abs x vs ->
    fs_len x = length vs /\
    fs_is_empty x = (match vs with [] => true | _ => false end) /\
    fs_iter x = Ok vs /\
    (forall k, fs_iter_from x k = Ok (skipn k vs)) /\
    (forall k v, nth_error vs k = Some v -> fs_get x k = Ok v) /\
    (forall k, length vs <= k -> fs_get x k = Panic).
  Proof. exact (@fs_observers R SP S HS). Qed.

  Theorem C03_clear : forall x, fs_inv x -> fs_inv (fs_clear x) /\ fs_abs (fs_clear x) [].
  Proof. exact (@fs_clear_spec R SP H S HS). Qed.
End C03.

(** every index container the stack can be parameterised with meets the container contract *)
Theorem C03_vec_container : forall T sz, ICOk (vec_ic T sz).
Proof. exact (@vec_ic_ok). Qed.
Theorem C03_index_list : ICOk index_list.
Proof. exact index_list_ok. Qed.
Theorem C03_index_optimized : ICOk index_optimized.
Proof. exact index_optimized_ok. Qed.

(** The tie to the terms the correspondence runs: for EVERY FlatStack of the catalogue (the
    [fs_entry] function extracted to OCaml), the region meets the contract and the index container
    is a faithful sequence -- the hypotheses of the theorems above. *)
From FC Require Import Model.Wire Model.FSMachine Model.Catalogue Model.CatalogueOk.
Theorem C03_catalogue : forall chk szs n F, fs_entry chk szs n = Some F ->
  (exists SP : RSpec (mr (fm F)), @RegionOK (mr (fm F)) SP) /\ inhabited (ICOk (fs_ic F)).
Proof. exact fs_catalogue_contract. Qed.
