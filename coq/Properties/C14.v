(** C14 IntoOwned laws hold and items copy faithfully between regions. *)
From FC Require Import Base.Res Index.IC Region.Region Region.Owned Region.Simple Region.Slice Region.Collapse
  Region.Consec Region.Columns Region.Items Region.ItemsOk.

Section Laws.
  Variables (R : Region) (SP : RSpec R) (I : Items R) (IS : ISpec I) (H : ItemsOK R I).
  (** into_owned(index(i)) is what the region reads at i (= the pushed value, by C01) *)
  Theorem C14_into_owned : forall s i, inv s -> valid s i ->
    exists x, index I s i = Ok x /\ iwf x /\ own I x = read R s i.
  Proof. exact (@index_ok R SP I IS H). Qed.
  (** borrow_as(&v) is a well-formed item denoting v *)
  Theorem C14_borrow_as : forall v, iwf (borrow I v) /\ own I (borrow I v) = Ok v.
  Proof. exact (@borrow_ok R SP I IS H). Qed.
  (** clone_onto(x, t) leaves into_owned(x), whatever t held before *)
  Theorem C14_clone_onto : forall x v t, iwf x -> own I x = Ok v -> clone_onto I x t = Ok v.
  Proof. exact (@clone_onto_ok R SP I IS H). Qed.
  (** pushing an item (region-backed or owned-borrowed) into ANY region state of the same type is
      pushing the value it denotes: same index, same successor state *)
  Theorem C14_push_item : forall s x v, iwf x -> own I x = Ok v -> push_item I s x = push R s v.
  Proof. exact (@push_item_ok R SP I IS H). Qed.
End Laws.

(** the induction over compositions *)
Theorem C14_owned : forall T, ItemsOK (owned T) (owned_items T).
Proof. exact (@owned_items_ok). Qed.
Theorem C14_mirror : forall T, ItemsOK (mirror T) (mirror_items T).
Proof. exact (@mirror_items_ok). Qed.
Theorem C14_vec_region : forall T, ItemsOK (vec_region T) (vec_region_items T).
Proof. exact (@vec_region_items_ok). Qed.
Theorem C14_option : forall R (SP : RSpec R) (I : Items R) (IS : ISpec I), ItemsOK R I ->
  ItemsOK (option_region R) (option_items I).
Proof. exact (@option_items_ok). Qed.
Theorem C14_result : forall A B (SA : RSpec A) (SB : RSpec B) (IA : Items A) (IB : Items B) (WA : ISpec IA) (WB : ISpec IB),
  ItemsOK A IA -> ItemsOK B IB -> ItemsOK (result_region A B) (result_items IA IB).
Proof. exact (@result_items_ok). Qed.
Theorem C14_tuple2 : forall A B (SA : RSpec A) (SB : RSpec B) (IA : Items A) (IB : Items B) (WA : ISpec IA) (WB : ISpec IB),
  ItemsOK A IA -> ItemsOK B IB -> ItemsOK (tuple2 A B) (tuple2_items IA IB).
Proof. exact (@tuple2_items_ok). Qed.
Theorem C14_slice : forall R (SP : RSpec R) (H : RegionOK R) (O : IC (idx R)) (HO : ICOk O) (I : Items R) (IS : ISpec I),
  ItemsOK R I -> ItemsOK (slice R O) (slice_items O I).
Proof. exact (@slice_items_ok). Qed.
Theorem C14_collapse : forall R veq (SP : RSpec R) (I : Items R) (IS : ISpec I), ItemsOK R I ->
  ItemsOK (collapse R veq) (collapse_items veq I).
Proof. exact (@collapse_items_ok). Qed.
Theorem C14_consec : forall R (SP : RSpec R) (H : RegionOK R) (PI : PairIdx R) (D : Dense R) (O : IC nat) (HO : ICOk O) chk
  (I : Items R) (IS : ISpec I), ItemsOK R I -> ItemsOK (consec R O chk) (consec_items O chk I).
Proof. exact (@consec_items_ok). Qed.
Theorem C14_columns : forall R (SP : RSpec R) (H : RegionOK R) (O : IC nat) (HO : ICOk O) chk (I : Items R) (IS : ISpec I),
  ItemsOK R I -> ItemsOK (columns R O chk) (columns_items O chk I).
Proof. exact (@columns_items_ok). Qed.

(** The tie to the terms the correspondence runs: for EVERY region of the catalogue (the [entry]
    function extracted to OCaml), except entries 21 and 29 (see C01_catalogue), the read items meet
    the item laws above: index denotes read, borrow_as/into_owned are inverse, clone_onto is total
    and exact, pushing a read item is pushing the value it denotes. *)
From FC Require Import Model.Wire Model.Catalogue Model.CatalogueOk.
Theorem C14_catalogue : forall chk szs n e, entry chk szs n = Some e -> n <> 21%N -> n <> 29%N ->
  exists (SP : RSpec (mr e)) (IS : ISpec (mi e)), @RegionOK (mr e) SP /\ @ItemsOK (mr e) SP (mi e) IS.
Proof.
  intros chk szs n e He H21 H29. destruct (catalogue_full chk szs He H21 H29) as (SP & IS & HR & HI & _).
  exists SP, IS. split; assumption.
Qed.
