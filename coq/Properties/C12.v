(** C12 Consecutive-pair and columns regions issue dense indices 0,1,2,... *)
From FC Require Import Base.Res Index.IC Region.Region Region.Consec Region.Columns.

(** the k-th push since default / clear / merge returns k (the offsets list has k+1 entries
    before it and k+2 after) *)
Theorem C12_consec_push_index : forall (R : Region) (SP : RSpec R), RegionOK R ->
  forall (PI : PairIdx R) (D : Dense R) (O : IC nat) (HO : ICOk O) (chk : bool) x v x' k,
  inv x -> push (consec R O chk) x v = Ok (x', k) -> S k = length (ic_abs (snd (fst x))).
Proof. exact (@consec_push_index). Qed.
