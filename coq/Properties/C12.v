(** C12 Consecutive-pair and columns regions issue dense indices 0,1,2,... *)
From FC Require Import Base.Res Index.IC Region.Region Region.Consec Region.Columns.

(** the k-th push since default / clear / merge returns k (the offsets list has k+1 entries
    before it and k+2 after) *)
Theorem C12_consec_push_index : forall (R : Region) (SP : RSpec R), RegionOK R ->
  forall (PI : PairIdx R) (D : Dense R) (O : IC nat) (HO : ICOk O) (chk : bool) x v x' k,
  inv x -> push (consec R O chk) x v = Ok (x', k) -> S k = length (ic_abs (snd (fst x))).
Proof. exact (@consec_push_index). Qed.

(** columns: the k-th row pushed since creation / merge / clear gets index k -- empty rows included,
    however many columns earlier or later rows have created ... *)
Theorem C12_columns_push_index : forall (R : Region) (SP : RSpec R), RegionOK R ->
  forall (O : IC nat) (HO : ICOk O) (chk : bool) x vs x' k,
  inv x -> push (columns R O chk) x vs = Ok (x', k) -> S k = length (ic_abs (snd (fst (snd x)))).
Proof. exact (@columns_push_index). Qed.
(** ... and index k reads back exactly the pushed row: its own length, its own cells (the round trip
    of the columns region, which holds for rows of ANY width over ANY number of existing columns) *)
Theorem C12_columns_row_exact : forall (R : Region) (SP : RSpec R), RegionOK R ->
  forall (O : IC nat) (HO : ICOk O) (chk : bool) (x : st (columns R O chk)) (vs : list (val R)),
  @inv _ (@columns_spec R SP O HO chk) x -> @dom _ (@columns_spec R SP O HO chk) x vs ->
  exists x' k, push (columns R O chk) x vs = Ok (x', k) /\ read (columns R O chk) x' k = Ok vs.
Proof. intros R SP H O HO chk. exact (@push_ok (columns R O chk) _ (@columns_ok R SP H O HO chk)). Qed.
(** the same for the consecutive-pairs wrapper *)
Theorem C12_consec_item_exact : forall (R : Region) (SP : RSpec R) (H : RegionOK R) (PI : PairIdx R) (D : Dense R)
  (O : IC nat) (HO : ICOk O) (chk : bool) (x : st (consec R O chk)) (v : val R),
  @inv _ (@consec_spec R SP PI D O HO chk) x -> @dom _ (@consec_spec R SP PI D O HO chk) x v ->
  exists x' k, push (consec R O chk) x v = Ok (x', k) /\ read (consec R O chk) x' k = Ok v.
Proof. intros R SP H PI D O HO chk. exact (@push_ok (consec R O chk) _ (@consec_ok R SP H PI D O HO chk)). Qed.

(** The known finding D8, exhibited IN THE MODEL: ConsecutiveIndexPairs directly over CollapseSequence
    (catalogue entry 29, which type-checks in Rust) breaks the property, because a collapsing region
    is not [Dense].  Wrapping build: push [1,2], [1,2], [3] returns 0, 1, 2 but index 1 reads [] instead
    of [1,2].  Checked build: the second push panics (the debug_assert_eq! in push).  These are the
    refutations of C01/C12 for that composition class; every other composition is covered by
    [C01_catalogue] / the theorem above. *)
From FC Require Import Base.UVal Model.Wire Model.Machine Model.Catalogue.
Definition d8_run (chk : bool) (ops : list op) : list (list obs) :=
  match entry chk [] 29%N with Some M => run0 M ops | None => [] end.
Example C12_D8_refuted_wrapping :
  d8_run false [OPush 0 0%N (UL [UN 1%N; UN 2%N]); OPush 0 0%N (UL [UN 1%N; UN 2%N]); OPush 0 0%N (UL [UN 3%N]); ORead 0]
  = [[BIdx (UN 0%N)]; [BIdx (UN 1%N)]; [BIdx (UN 2%N)];
     [BVal (UL [UN 1%N; UN 2%N]); BVal (UL []); BVal (UL [UN 3%N])]].
Proof. vm_compute. reflexivity. Qed.
Example C12_D8_refuted_checked :
  d8_run true [OPush 0 0%N (UL [UN 1%N; UN 2%N]); OPush 0 0%N (UL [UN 1%N; UN 2%N])] = [[BIdx (UN 0%N)]; [BPanic]].
Proof. vm_compute. reflexivity. Qed.
