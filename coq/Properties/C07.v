(** C07 Dictionary codec (placeholder header; theorems follow in this file as they are proved). *)
From FC Require Import Base.Res Region.Region Codec.Dictionary.

(** decoding the stored form of the empty string gives the empty string, whatever the dictionary *)
Theorem C07_empty_roundtrip : forall c, stored_form c [] = Ok [] \/ exists t, stored_form c [] = Ok [t].
Proof. intros c. unfold stored_form. destruct (lookup [] (cenc c)); eauto. Qed.
