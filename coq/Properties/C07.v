(** C07 Dictionary codec: exact bytes back or refusal, frequent strings cost 1 byte. *)
From FC Require Import Base.Res Region.Region Region.History Codec.Dictionary Codec.DictionaryOk.

(** The tag table [new_from] builds is consistent for ANY source statistics -- any number of
    sources, any contents, any number of generations (sources may themselves be merged codecs),
    lossy summaries included. *)
Theorem C07_new_from_ok : forall cs, Forall codec_ok cs -> codec_ok (new_from cs).
Proof. exact new_from_ok. Qed.
Theorem C07_default_ok : codec_ok codec_default.
Proof. exact codec_default_ok. Qed.

(** Every accepted push -- dictionary hit, literal, or the empty string -- decodes to exactly the
    pushed bytes. *)
Theorem C07_roundtrip : forall c x st, codec_ok c -> stored_form c x = Ok st -> decode (record_stats c x) st = x.
Proof. exact dict_roundtrip. Qed.

(** A push is refused (panics) exactly when the input is not a dictionary entry and starts with an
    assigned tag, i.e. exactly when storing it literally would read back as different bytes. *)
Theorem C07_refusal : forall c x, stored_form c x = Panic <->
  lookup x (cenc c) = None /\ exists b r e, x = b :: r /\ bm_get (cdec c) (N.to_nat b) = Some e.
Proof. exact dict_refusal. Qed.

(** The dictionary consists of exactly the first #free-tags strings of the merged heavy-hitter
    summary (count descending, bytes ascending; a tag is free when no source saw it as a first
    byte), and each of them is stored in exactly one byte. *)
Theorem C07_dictionary : forall cs,
  map fst (cenc (new_from cs)) =
  firstn (length (free_tags (flat_map cseen cs) 256)) (map fst (merged_hitters cs)).
Proof. exact new_from_dictionary. Qed.
Theorem C07_one_byte : forall cs x,
  In x (firstn (length (free_tags (flat_map cseen cs) 256)) (map fst (merged_hitters cs))) ->
  exists t, stored_form (new_from cs) x = Ok [t].
Proof. exact new_from_one_byte. Qed.

(** CodecRegion<DictionaryCodec, R> meets the region contract for any byte region R that meets it
    and accepts every byte string: round trip (C01), append-only (C02), clear (C08), merged regions
    well formed (C10) -- and hence the history theorems below -- hold for coded regions too. *)
Theorem C07_codec_region_ok : forall (R : Region) (SP : RSpec R) (H : RegionOK R)
  (to_b : val R -> bytes) (of_b : bytes -> val R), (forall x, to_b (of_b x) = x) -> (forall s w, dom s w) ->
  RegionOK (codec_region R to_b of_b).
Proof. exact (@codec_region_ok). Qed.

Theorem C07_history : forall (R : Region) (SP : RSpec R) (H : RegionOK R)
  (to_b : val R -> bytes) (of_b : bytes -> val R) (E : forall x, to_b (of_b x) = x) (T : forall s w, dom s w)
  (ops : list (op (codec_region R to_b of_b))),
  @covered _ (@codec_region_spec R SP to_b of_b) ops (dflt (codec_region R to_b of_b)) ->
  exists s log tr, run ops (dflt (codec_region R to_b of_b)) [] [] = Ok (s, log, tr) /\
    @inv _ (@codec_region_spec R SP to_b of_b) s /\ @log_ok _ (@codec_region_spec R SP to_b of_b) s log.
Proof.
  intros R SP H to_b of_b E T.
  exact (@reachable_ok (codec_region R to_b of_b) (@codec_region_spec R SP to_b of_b) (@codec_region_ok R SP H to_b of_b E T)).
Qed.

(** * the heavy-hitter summary in the LOSSY regime (more than 1024 updates; Codec/MisraGries.v) *)
From FC Require Import Codec.MisraGries.
Local Open Scope N_scope.

(** For ANY sequence of updates: the summary never over-estimates a string's count and
    under-estimates it by at most the slack D; every lossy compaction (T of them) costs the total
    weight more than 513 times what it subtracts, and needs 512 fresh updates:
    D <= total / 513 + T  and  T <= updates / 512. *)
Theorem C07_summary_accuracy : forall us, exists D T,
  (forall x, cnt x (mg_done (mg_run us [])) <= cnt x us /\ cnt x us <= cnt x (mg_done (mg_run us [])) + D) /\
  T <= D /\ 513 * (D - T) + T <= wt us /\ 512 * T <= N.of_nat (length us).
Proof. exact mg_accuracy. Qed.

(** with fewer than 1024 updates nothing is lost at all *)
Theorem C07_summary_exact : forall us x, (length us < CAP)%nat -> cnt x (mg_done (mg_run us [])) = cnt x us.
Proof. exact mg_exact. Qed.

(** a region created fresh and pushed [xs] summarises exactly the pushes of non-empty strings *)
Theorem C07_region_summary : forall xs c0, cstats c0 = [] ->
  let us := map (fun x : bytes => (x, 1)) (filter nonempty xs) in
  exists D T,
    (forall x, cnt x (mg_done (cstats (fold_left record_stats xs c0))) <= cnt x us /\
               cnt x us <= cnt x (mg_done (cstats (fold_left record_stats xs c0))) + D) /\
    T <= D /\ 513 * (D - T) + T <= wt us /\ 512 * T <= N.of_nat (length us).
Proof. exact codec_summary_accuracy. Qed.

(** merging the sources' summaries obeys the same bound relative to them ... *)
Theorem C07_merged_accuracy : forall cs, exists D T,
  (forall x, est cs x <= src cs x /\ src cs x <= est cs x + D) /\
  T <= D /\ 513 * (D - T) + T <= wt (sources cs) /\ 512 * T <= N.of_nat (length (sources cs)).
Proof. exact merged_accuracy. Qed.

(** ... and a DOMINANT string -- its summed source count exceeds the slack, and fewer than
    #free-tags strings come within the slack of it -- is a dictionary entry of the merged region:
    it is stored in exactly one byte. *)
Theorem C07_dominant_one_byte : forall cs x D,
  (forall y, est cs y <= src cs y /\ src cs y <= est cs y + D) ->
  D < src cs x ->
  (forall ys, NoDup ys -> Forall (fun y => src cs x - D <= src cs y) ys ->
     (length ys <= length (free_tags (flat_map cseen cs) 256))%nat) ->
  exists t, stored_form (new_from cs) x = Ok [t].
Proof. exact dominant_one_byte. Qed.
