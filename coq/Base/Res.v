(** Result monad for modelling Rust panics, and list helpers the 8.16 stdlib lacks. *)
From Coq Require Export List Arith NArith Lia Bool.
Export ListNotations.
Set Implicit Arguments.

Inductive res (A : Type) := Ok (a : A) | Panic.
Arguments Panic {A}.

Definition bind {A B} (x : res A) (f : A -> res B) : res B :=
  match x with Ok a => f a | Panic => Panic end.
Notation "'let*' x ':=' c 'in' k" := (bind c (fun x => k))
  (at level 200, x name, c at level 100, k at level 200).
Notation "'let*' ' p ':=' c 'in' k" := (bind c (fun x => let 'p := x in k))
  (at level 200, p pattern, c at level 100, k at level 200).

Fixpoint mapM {A B} (f : A -> res B) (l : list A) : res (list B) :=
  match l with
  | [] => Ok []
  | x :: l => let* y := f x in let* ys := mapM f l in Ok (y :: ys)
  end.

Lemma mapM_ext_in {A B} (f g : A -> res B) l :
  (forall x, In x l -> f x = g x) -> mapM f l = mapM g l.
Proof.
  induction l as [|x l IH]; simpl; intros H; [reflexivity|].
  rewrite (H x) by auto. rewrite IH by auto. reflexivity.
Qed.

Lemma mapM_length {A B} (f : A -> res B) l r : mapM f l = Ok r -> length r = length l.
Proof.
  revert r; induction l as [|x l IH]; simpl; intros r H.
  - inversion H; reflexivity.
  - destruct (f x); simpl in *; [|discriminate].
    destruct (mapM f l); simpl in *; [|discriminate]. inversion H; subst; simpl. f_equal; auto.
Qed.

Lemma mapM_ok {A B} (f : A -> res B) l :
  (forall x, In x l -> exists y, f x = Ok y) -> exists r, mapM f l = Ok r.
Proof.
  induction l as [|x l IH]; simpl; intros H; [eauto|].
  destruct (H x) as (y & ->); auto. simpl.
  destruct IH as (r & ->); auto. simpl. eauto.
Qed.

Lemma In_firstn_in {A} (x : A) n l : In x (firstn n l) -> In x l.
Proof. revert l; induction n; intros [|y l]; simpl; intuition. Qed.
Lemma In_skipn_in {A} (x : A) n l : In x (skipn n l) -> In x l.
Proof. revert l; induction n; intros [|y l]; simpl; intuition. Qed.

Lemma nth_error_last {A} (l : list A) : forall x d, nth_error (x :: l) (length l) = Some (last (x :: l) d).
Proof.
  induction l as [|y l IH]; intros x d; [reflexivity|].
  change (nth_error (x :: y :: l) (length (y :: l))) with (nth_error (y :: l) (length l)).
  rewrite (IH y d). reflexivity.
Qed.

Lemma skipn_nth_error {A} (l : list A) : forall a x, nth_error l a = Some x -> skipn a l = x :: skipn (S a) l.
Proof.
  induction l as [|y l IH]; intros [|a] x H; simpl in *; try discriminate.
  - inversion H; reflexivity.
  - apply IH; assumption.
Qed.

(** [sub l a b]: the slice [l[a..b]] of Rust, panicking when out of range. *)
Definition sub {A} (l : list A) (a b : nat) : res (list A) :=
  if (a <=? b) && (b <=? length l) then Ok (firstn (b - a) (skipn a l)) else Panic.

Lemma sub_app_new {A} (l v : list A) : sub (l ++ v) (length l) (length l + length v) = Ok v.
Proof.
  unfold sub. rewrite app_length.
  destruct (Nat.leb_spec (length l) (length l + length v)); try lia.
  rewrite Nat.leb_refl. simpl.
  rewrite skipn_app, skipn_all, Nat.sub_diag. simpl.
  replace (length l + length v - length l) with (length v) by lia. now rewrite firstn_all.
Qed.

Lemma sub_app_old {A} (l v : list A) a b : a <= b <= length l -> sub (l ++ v) a b = sub l a b.
Proof.
  intros [H1 H2]. unfold sub. rewrite app_length.
  destruct (Nat.leb_spec a b); try lia.
  destruct (Nat.leb_spec b (length l)); try lia.
  destruct (Nat.leb_spec b (length l + length v)); try lia. simpl.
  rewrite skipn_app, firstn_app.
  replace (b - a - length (skipn a l)) with 0 by (rewrite skipn_length; lia).
  simpl. now rewrite app_nil_r.
Qed.

Lemma sub_ok {A} (l : list A) a b : a <= b <= length l -> sub l a b = Ok (firstn (b - a) (skipn a l)).
Proof.
  intros [H1 H2]. unfold sub.
  destruct (Nat.leb_spec a b); try lia. destruct (Nat.leb_spec b (length l)); try lia. reflexivity.
Qed.
