(** Universal wire values: the untyped boundary between the executable model and the correspondence
    driver (histories, observations, serialised states). *)
From FC Require Import Base.Res.
From Coq Require Export NArith.
Set Implicit Arguments.

Inductive uval :=
| UN (n : N)
| UL (l : list uval)
| UNone
| USome (v : uval)
| UOk (v : uval)
| UErr (v : uval).

Fixpoint uval_eqb (a b : uval) {struct a} : bool :=
  match a, b with
  | UN x, UN y => N.eqb x y
  | UL l, UL m =>
      (fix go (l m : list uval) : bool :=
         match l, m with
         | [], [] => true
         | x :: l', y :: m' => uval_eqb x y && go l' m'
         | _, _ => false
         end) l m
  | UNone, UNone => true
  | USome x, USome y | UOk x, UOk y | UErr x, UErr y => uval_eqb x y
  | _, _ => false
  end.

Definition omap {A B} (f : A -> option B) : list A -> option (list B) :=
  fix go l := match l with
              | [] => Some []
              | x :: l => match f x, go l with Some y, Some ys => Some (y :: ys) | _, _ => None end
              end.

Definition ubool (b : bool) : uval := UN (if b then 1 else 0)%N.
Definition unat (n : nat) : uval := UN (N.of_nat n).
Definition upair (a b : nat) : uval := UL [unat a; unat b].

(** observation of a panicking accessor inside a probe *)
Definition ures (r : res uval) : uval := match r with Ok v => USome v | Panic => UNone end.

