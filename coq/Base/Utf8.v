(** UTF-8 well-formedness of a byte list (RFC 3629 / Unicode Table 3-7), as a small automaton. *)
From FC Require Import Base.Res.
Local Open Scope N_scope.

Inductive u8st := U0 | UC (n : nat) (lo hi : N).   (* expecting [n] continuation bytes, the next in [lo, hi] *)

Definition between (lo hi b : N) : bool := (lo <=? b) && (b <=? hi).

Definition u8step (st : u8st) (b : N) : option u8st :=
  match st with
  | U0 =>
      if b <? 128 then Some U0
      else if between 194 223 b then Some (UC 1 128 191)
      else if b =? 224 then Some (UC 2 160 191)
      else if between 225 236 b || between 238 239 b then Some (UC 2 128 191)
      else if b =? 237 then Some (UC 2 128 159)
      else if b =? 240 then Some (UC 3 144 191)
      else if between 241 243 b then Some (UC 3 128 191)
      else if b =? 244 then Some (UC 3 128 143)
      else None
  | UC n lo hi =>
      if between lo hi b then
        Some (match n with S (S n') => UC (S n') 128 191 | _ => U0 end)
      else None
  end.

Definition utf8_run (l : list N) : option u8st :=
  fold_left (fun st b => match st with Some s => u8step s b | None => None end) l (Some U0).

Definition utf8_valid (l : list N) : bool :=
  match utf8_run l with Some U0 => true | _ => false end.
