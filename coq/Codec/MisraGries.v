(** Accuracy of the heavy-hitter summary (C07, lossy regime).

    [MisraGries] in src/impls/codec.rs appends (string, count) entries and, each time the vector
    reaches its capacity of 1024, compacts it ([tidy]): consolidate equal keys, sort by count, keep
    the 512 heaviest and subtract (count at rank 512) - 1 from each of them.  This file proves, for
    ANY sequence of updates:

    - the summary never over-estimates: [cnt x m <= true x];
    - it under-estimates by at most the accumulated slack [S + T] (S = sum of the subtracted
      amounts, T = number of lossy compactions);
    - every lossy compaction removes more than 513 times its subtracted amount of total weight:
      [wt m + 513 * S + T <= total], hence  S + T <= total / 513 + T;
    - consolidation and sorting lose nothing.

    So a string whose true count exceeds that of every string outside the dictionary-sized head by
    more than the slack survives with the rank its count deserves. *)
From FC Require Import Base.Res Region.Region Codec.Dictionary Codec.DictionaryOk.
From Coq Require Import Lia Sorted Permutation.
Set Implicit Arguments.
Local Open Scope N_scope.

(** * counting *)
Fixpoint cnt (x : bytes) (m : list entry) : N :=
  match m with
  | [] => 0
  | (k, c) :: m' => (match bcmp k x with Eq => c | _ => 0 end) + cnt x m'
  end.
Fixpoint wt (m : list entry) : N := match m with [] => 0 | (_, c) :: m' => c + wt m' end.

Lemma cnt_app x a b : cnt x (a ++ b) = cnt x a + cnt x b.
Proof. induction a as [|[k c] a IH]; cbn [cnt app]; [reflexivity|]. rewrite IH. lia. Qed.
Lemma wt_app a b : wt (a ++ b) = wt a + wt b.
Proof. induction a as [|[k c] a IH]; cbn [wt app]; [reflexivity|]. rewrite IH. lia. Qed.
Lemma cnt_le_wt x m : cnt x m <= wt m.
Proof. induction m as [|[k c] m IH]; cbn [cnt wt]; [lia|]. destruct (bcmp k x); lia. Qed.

Lemma cnt_perm x a b : Permutation a b -> cnt x a = cnt x b.
Proof.
  induction 1 as [|[k c] a b _ IH|[k c] [k' c'] a|a b c _ IH1 _ IH2]; cbn [cnt]; try lia.
Qed.
Lemma wt_perm a b : Permutation a b -> wt a = wt b.
Proof.
  induction 1 as [|[k c] a b _ IH|[k c] [k' c'] a|a b c _ IH1 _ IH2]; cbn [wt]; try lia.
Qed.

(** * sorting is a permutation *)
Lemma ins_by_perm le x l : Permutation (ins_by le x l) (x :: l).
Proof.
  induction l as [|y l IH]; cbn [ins_by]; [reflexivity|].
  destruct (le y x); [|reflexivity]. rewrite IH. apply perm_swap.
Qed.
Lemma sort_by_perm le l : Permutation (sort_by le l) l.
Proof.
  unfold sort_by.
  assert (H : forall acc, Permutation (fold_left (fun acc x => ins_by le x acc) l acc) (acc ++ l)).
  { induction l as [|x l IH]; intros acc; cbn [fold_left]; [now rewrite app_nil_r|].
    rewrite IH, ins_by_perm. cbn [app]. apply Permutation_middle. }
  apply (H []).
Qed.

(** * consolidation loses nothing *)
Lemma merge_adj_cnt x l : cnt x (merge_adj l) = cnt x l.
Proof.
  induction l as [|[k c] l IH]; [reflexivity|]. cbn [merge_adj cnt]. rewrite <- IH.
  destruct (merge_adj l) as [|[k' c'] r]; [cbn; lia|].
  destruct (bcmp k k') eqn:E; cbn [cnt]; try lia.
  apply bcmp_eq in E. subst k'. destruct (bcmp k x); lia.
Qed.
Lemma merge_adj_wt l : wt (merge_adj l) = wt l.
Proof.
  induction l as [|[k c] l IH]; [reflexivity|]. cbn [merge_adj wt]. rewrite <- IH.
  destruct (merge_adj l) as [|[k' c'] r]; [cbn; lia|].
  destruct (bcmp k k'); cbn [wt]; lia.
Qed.
Lemma filter_nz_cnt x l : cnt x (filter (fun e : entry => negb (snd e =? 0)) l) = cnt x l.
Proof.
  induction l as [|[k c] l IH]; [reflexivity|]. cbn [filter snd]. destruct (N.eqb_spec c 0) as [->|Hc]; cbn [negb cnt].
  - rewrite IH. destruct (bcmp k x); lia.
  - rewrite IH. reflexivity.
Qed.
Lemma filter_nz_wt l : wt (filter (fun e : entry => negb (snd e =? 0)) l) = wt l.
Proof.
  induction l as [|[k c] l IH]; [reflexivity|]. cbn [filter snd]. destruct (N.eqb_spec c 0) as [->|Hc]; cbn [negb wt]; lia.
Qed.
Lemma consolidate_cnt x l : cnt x (consolidate l) = cnt x l.
Proof. unfold consolidate. rewrite filter_nz_cnt, merge_adj_cnt. apply cnt_perm, sort_by_perm. Qed.
Lemma consolidate_wt l : wt (consolidate l) = wt l.
Proof. unfold consolidate. rewrite filter_nz_wt, merge_adj_wt. apply wt_perm, sort_by_perm. Qed.
Lemma mg_done_cnt x m : cnt x (mg_done m) = cnt x m.
Proof. unfold mg_done. rewrite (cnt_perm x (sort_by_perm count_ge _)). apply consolidate_cnt. Qed.
Lemma mg_done_wt m : wt (mg_done m) = wt m.
Proof. unfold mg_done. rewrite (wt_perm (sort_by_perm count_ge _)). apply consolidate_wt. Qed.

(** * the byte-string order is total *)
Lemma bcmp_antisym a : forall b, bcmp b a = CompOpp (bcmp a b).
Proof.
  induction a as [|x a IH]; intros [|y b]; cbn; try reflexivity.
  rewrite (N.compare_antisym x y). destruct (N.compare x y); cbn; auto.
Qed.
Lemma bcmp_lt_trans a : forall b c, bcmp a b = Lt -> bcmp b c = Lt -> bcmp a c = Lt.
Proof.
  induction a as [|x a IH]; intros [|y b] [|z c]; cbn; try discriminate; try reflexivity.
  destruct (N.compare_spec x y) as [->|Hxy|Hxy]; try discriminate.
  - destruct (N.compare_spec y z) as [->|Hyz|Hyz]; try discriminate; [apply IH|reflexivity].
  - intros _. destruct (N.compare_spec y z) as [->|Hyz|Hyz]; try discriminate.
    + intros _. destruct (N.compare_spec x z); try lia. reflexivity.
    + intros _. destruct (N.compare_spec x z); try lia. reflexivity.
Qed.
Lemma key_le_total a b : key_le a b = false -> key_le b a = true.
Proof. unfold key_le. rewrite (bcmp_antisym (fst a) (fst b)). destruct (bcmp (fst a) (fst b)); cbn; congruence. Qed.
Lemma key_le_trans a b c : key_le a b = true -> key_le b c = true -> key_le a c = true.
Proof.
  unfold key_le. destruct (bcmp (fst a) (fst b)) eqn:E1; try discriminate; destruct (bcmp (fst b) (fst c)) eqn:E2; try discriminate; intros _ _.
  - apply bcmp_eq in E1, E2. rewrite E1, E2, bcmp_refl. reflexivity.
  - apply bcmp_eq in E1. rewrite E1, E2. reflexivity.
  - apply bcmp_eq in E2. rewrite <- E2, E1. reflexivity.
  - rewrite (bcmp_lt_trans _ _ _ E1 E2). reflexivity.
Qed.

(** * insertion sort sorts (for a total, transitive comparison) *)
Section Sorted.
  Variable le : entry -> entry -> bool.
  Hypothesis le_total : forall a b, le a b = false -> le b a = true.
  Hypothesis le_trans : forall a b c, le a b = true -> le b c = true -> le a c = true.
  Definition sorted_by := StronglySorted (fun a b => le a b = true).

  Lemma ins_by_sorted x l : sorted_by l -> sorted_by (ins_by le x l).
  Proof.
    induction 1 as [|y l Hs IH Hall]; cbn [ins_by]; [repeat constructor|].
    destruct (le y x) eqn:E.
    - constructor; [exact IH|]. apply Forall_forall. intros z Hz.
      apply (Permutation_in _ (ins_by_perm le x l)) in Hz. destruct Hz as [<-|Hz]; [exact E|].
      rewrite Forall_forall in Hall. apply Hall. exact Hz.
    - apply le_total in E. constructor; [constructor; assumption|].
      constructor; [exact E|]. eapply Forall_impl; [|exact Hall]. intros z Hz. cbn in Hz. eapply le_trans; eassumption.
  Qed.
  Lemma sort_by_sorted l : sorted_by (sort_by le l).
  Proof.
    unfold sort_by. assert (H : forall acc, sorted_by acc -> sorted_by (fold_left (fun acc x => ins_by le x acc) l acc)).
    { induction l as [|x l IH]; intros acc Ha; cbn [fold_left]; [exact Ha|]. apply IH, ins_by_sorted, Ha. }
    apply H. constructor.
  Qed.
End Sorted.

(** * consolidated summaries have distinct keys *)
Definition key_lt (a b : entry) : Prop := bcmp (fst a) (fst b) = Lt.
Definition distinct (l : list entry) : Prop := StronglySorted key_lt l.

Lemma merge_adj_head l : forall k c r, merge_adj l = (k, c) :: r -> exists c0 l', l = (k, c0) :: l'.
Proof.
  destruct l as [|[k0 c0] l]; cbn [merge_adj]; intros k c r H; [discriminate|].
  destruct (merge_adj l) as [|[k' c'] r']; [inversion H; subst; eauto|].
  destruct (bcmp k0 k'); inversion H; subst; eauto.
Qed.

Lemma merge_adj_distinct l : sorted_by key_le l -> distinct (merge_adj l).
Proof.
  induction 1 as [|[k c] l Hs IH Hall]; cbn [merge_adj]; [constructor|].
  destruct (merge_adj l) as [|[k' c'] r] eqn:E; [repeat constructor|].
  destruct (merge_adj_head l E) as (c0 & l' & ->).
  assert (Hkk : key_le (k, c) (k', c0) = true) by (inversion Hall; assumption).
  unfold key_le in Hkk. cbn [fst] in Hkk.
  inversion IH as [|? ? IHr IHall]; subst.
  destruct (bcmp k k') eqn:Ek; try discriminate.
  - apply bcmp_eq in Ek. subst k'. constructor; [exact IHr|]. exact IHall.
  - constructor; [exact IH|]. constructor; [exact Ek|].
    eapply Forall_impl; [|exact IHall]. intros z Hz. unfold key_lt in *. cbn [fst] in *. eapply bcmp_lt_trans; eassumption.
Qed.

Lemma filter_distinct f l : distinct l -> distinct (filter f l).
Proof.
  induction 1 as [|x l Hs IH Hall]; cbn [filter]; [constructor|].
  destruct (f x); [|exact IH]. constructor; [exact IH|].
  apply Forall_forall. intros z Hz. apply filter_In in Hz. rewrite Forall_forall in Hall. apply Hall, Hz.
Qed.

Lemma consolidate_distinct l : distinct (consolidate l).
Proof.
  unfold consolidate. apply filter_distinct, merge_adj_distinct.
  apply sort_by_sorted; [exact key_le_total|exact key_le_trans].
Qed.

(** in a list with distinct keys, an entry's count is the string's count *)
Lemma distinct_cnt_notin l : distinct l -> forall x, Forall (fun e => key_lt (x, 0) e) l -> cnt x l = 0.
Proof.
  induction 1 as [|[k c] l Hs IH Hall]; intros x HF; [reflexivity|].
  inversion HF as [|? ? Hx HF']; subst. unfold key_lt in Hx. cbn [fst] in Hx. cbn [cnt].
  rewrite (bcmp_antisym x k), Hx. cbn. apply IH. exact HF'.
Qed.
Lemma distinct_cnt_in l : distinct l -> forall k c, In (k, c) l -> cnt k l = c.
Proof.
  induction 1 as [|[k0 c0] l Hs IH Hall]; intros k c Hin; [destruct Hin|]. cbn [cnt].
  destruct Hin as [Heq|Hin].
  - inversion Heq; subst. rewrite bcmp_refl. rewrite distinct_cnt_notin; [lia|exact Hs|].
    eapply Forall_impl; [|exact Hall]. intros z Hz. exact Hz.
  - rewrite Forall_forall in Hall. pose proof (Hall _ Hin) as Hlt. unfold key_lt in Hlt. cbn [fst] in Hlt.
    rewrite Hlt. rewrite (IH k c Hin). lia.
Qed.
Lemma distinct_cnt_absent l : forall x, (forall c, ~ In (x, c) l) -> cnt x l = 0.
Proof.
  induction l as [|[k c] l IH]; intros x Hn; [reflexivity|]. cbn [cnt].
  destruct (bcmp k x) eqn:E.
  - apply bcmp_eq in E. subst. exfalso. apply (Hn c). left. reflexivity.
  - rewrite IH; [lia|]. intros c' Hc. apply (Hn c'). right. exact Hc.
  - rewrite IH; [lia|]. intros c' Hc. apply (Hn c'). right. exact Hc.
Qed.

(** distinctness as a permutation-invariant: at most one entry per key *)
Definition uniq (l : list entry) : Prop := forall k c c', In (k, c) l -> In (k, c') l -> cnt k l = c.
Lemma distinct_uniq l : distinct l -> uniq l.
Proof. intros Hd k c c' H1 _. apply distinct_cnt_in; assumption. Qed.
Lemma uniq_perm l l' : Permutation l l' -> uniq l -> uniq l'.
Proof.
  intros HP Hu k c c' H1 H2. rewrite <- (cnt_perm k HP).
  apply (Hu k c c'); eapply Permutation_in; try (symmetry; exact HP); assumption.
Qed.

(** * sorting by count *)
Lemma count_ge_total a b : count_ge a b = false -> count_ge b a = true.
Proof. unfold count_ge. intros H. apply N.leb_gt in H. apply N.leb_le. lia. Qed.
Lemma count_ge_trans a b c : count_ge a b = true -> count_ge b c = true -> count_ge a c = true.
Proof. unfold count_ge. rewrite !N.leb_le. lia. Qed.

Definition nz (l : list entry) : Prop := Forall (fun e : entry => 1 <= snd e) l.
Lemma consolidate_nz l : nz (consolidate l).
Proof.
  unfold consolidate, nz. apply Forall_forall. intros [k c] Hin. apply filter_In in Hin. destruct Hin as [_ H].
  cbn [snd] in *. destruct (N.eqb_spec c 0); [discriminate|lia].
Qed.
Lemma nz_perm l l' : Permutation l l' -> nz l -> nz l'.
Proof. intros HP H. eapply Permutation_Forall; eassumption. Qed.

Lemma drop_zeros_nz l : nz l -> drop_zeros l = l.
Proof. intros H. destruct l as [|[k c] l]; [reflexivity|]. inversion H; subst. cbn [snd] in *. destruct c; [lia|reflexivity]. Qed.

(** * one compaction *)
Definition KEEP : nat := (CAP / 2)%nat.

Lemma cnt_map_sub_le x sub l : cnt x (map (fun e : entry => (fst e, snd e - sub)) l) <= cnt x l.
Proof. induction l as [|[k c] l IH]; cbn [map cnt fst snd]; [lia|]. destruct (bcmp k x); lia. Qed.
Lemma cnt_map_sub_in x c sub l : In (x, c) l -> c - sub <= cnt x (map (fun e : entry => (fst e, snd e - sub)) l).
Proof.
  induction l as [|[k c0] l IH]; intros Hin; [destruct Hin|]. cbn [map cnt fst snd].
  destruct Hin as [Heq|Hin]; [inversion Heq; subst; rewrite bcmp_refl; lia|]. specialize (IH Hin). lia.
Qed.
Lemma wt_map_sub sub l : Forall (fun e : entry => sub <= snd e) l ->
  wt (map (fun e : entry => (fst e, snd e - sub)) l) + N.of_nat (length l) * sub = wt l.
Proof.
  induction 1 as [|[k c] l Hc Hl IH]; cbn [map wt length fst snd] in *; [lia|]. rewrite Nat2N.inj_succ. lia.
Qed.

(** what one [tidy] does to the counts: never up, down by at most [d]; when it is lossy ([1 <= d]) the
    total weight drops by more than 513 * (d - 1) *)
Theorem tidy_spec m : exists d,
  (forall x, cnt x (tidy m) <= cnt x m /\ cnt x m <= cnt x (tidy m) + d) /\
  ((d = 0 /\ wt (tidy m) = wt m /\ (length (tidy m) <= length m)%nat) \/
   (1 <= d /\ wt (tidy m) + 513 * (d - 1) + 1 <= wt m /\ length (tidy m) = KEEP /\ (KEEP < length m)%nat)).
Proof.
  unfold tidy. set (m' := sort_by count_ge (consolidate m)). fold KEEP.
  assert (HP : Permutation m' (consolidate m)) by apply sort_by_perm.
  assert (Hcnt : forall x, cnt x m' = cnt x m) by (intros x; rewrite (cnt_perm x HP); apply consolidate_cnt).
  assert (Hwt : wt m' = wt m) by (rewrite (wt_perm HP); apply consolidate_wt).
  assert (Hlen : (length m' <= length m)%nat).
  { rewrite (Permutation_length HP). unfold consolidate.
    assert (G1 : forall l : list entry, (length (filter (fun e : entry => negb (snd e =? 0)%N) l) <= length l)%nat).
    { induction l as [|e l IH]; cbn [filter length]; [lia|]. destruct (negb _); cbn [length]; lia. }
    assert (G2 : forall l : list entry, (length (merge_adj l) <= length l)%nat).
    { induction l as [|[k c] l IH]; cbn [merge_adj length]; [lia|].
      destruct (merge_adj l) as [|[k' c'] r]; cbn [length] in *; [lia|]. destruct (bcmp k k'); cbn [length]; lia. }
    eapply Nat.le_trans; [apply G1|]. eapply Nat.le_trans; [apply G2|]. rewrite (Permutation_length (sort_by_perm key_le m)). lia. }
  destruct (Nat.ltb_spec KEEP (length m')) as [Hlt|Hge].
  2:{ exists 0. split; [intros x; rewrite Hcnt; lia|]. left. auto. }
  (* the lossy case *)
  assert (Hs : sorted_by count_ge m') by (apply sort_by_sorted; [exact count_ge_total|exact count_ge_trans]).
  assert (Hu : uniq m') by (eapply uniq_perm; [symmetry; exact HP|apply distinct_uniq, consolidate_distinct]).
  assert (Hnz : nz m') by (eapply nz_perm; [symmetry; exact HP|apply consolidate_nz]).
  set (A := firstn KEEP m'). set (B := skipn KEEP m').
  assert (HAB : m' = A ++ B) by (symmetry; apply firstn_skipn).
  assert (HlA : length A = KEEP) by (unfold A; rewrite firstn_length; lia).
  destruct B as [|b0 B'] eqn:EB.
  { exfalso. assert (length m' = length A) by (rewrite HAB at 1; rewrite app_nil_r; reflexivity). lia. }
  set (q := snd (nth KEEP m' ([], 0))).
  assert (Hq : q = snd b0).
  { unfold q. rewrite HAB at 1. rewrite app_nth2 by lia. rewrite HlA, Nat.sub_diag. reflexivity. }
  assert (Hq1 : 1 <= q).
  { rewrite Hq. unfold nz in Hnz. rewrite Forall_forall in Hnz. apply Hnz. rewrite HAB. apply in_or_app. right. left. reflexivity. }
  (* everything before rank KEEP is at least q, everything from there on at most q *)
  assert (HA : Forall (fun e : entry => snd b0 <= snd e) A /\ Forall (fun e : entry => snd e <= snd b0) (b0 :: B')).
  { rewrite HAB in Hs. clear - Hs. revert Hs. unfold sorted_by. generalize A. clear A. intros A. induction A as [|a A IH]; cbn [app]; intros Hs.
    - split; [constructor|]. inversion Hs as [|? ? Hs' Hall]; subst. constructor; [lia|].
      eapply Forall_impl; [|exact Hall]. intros z Hz. cbn in Hz. unfold count_ge in Hz. apply N.leb_le in Hz. exact Hz.
    - inversion Hs as [|? ? Hs' Hall]; subst. destruct (IH Hs') as [H1 H2]. split; [|exact H2]. constructor; [|exact H1].
      rewrite Forall_forall in Hall. specialize (Hall b0 ltac:(apply in_or_app; right; left; reflexivity)).
      unfold count_ge in Hall. apply N.leb_le in Hall. exact Hall. }
  rewrite <- Hq in HA. destruct HA as [HA HB].
  set (sub := q - 1). set (m2 := map (fun e : entry => (fst e, snd e - sub)) A).
  assert (Hm2nz : nz (rev m2)).
  { unfold nz. apply Forall_rev. unfold m2. apply Forall_forall. intros e He. apply in_map_iff in He.
    destruct He as (a & <- & Ha). cbn [snd]. rewrite Forall_forall in HA. specialize (HA a Ha). unfold sub. lia. }
  rewrite (drop_zeros_nz Hm2nz), rev_involutive.
  exists q. split.
  - intros x. assert (Hx : cnt x A + cnt x (b0 :: B') = cnt x m) by (rewrite <- Hcnt, <- cnt_app, <- HAB; reflexivity).
    rewrite <- Hx. split.
    + unfold m2. pose proof (cnt_map_sub_le x sub A). lia.
    + (* x occurs at most once in m' *)
      destruct (in_dec (fun a b : bytes => list_eq_dec N.eq_dec a b) x (map fst A)) as [HinA|HninA].
      * apply in_map_iff in HinA. destruct HinA as ([k c] & Hk & Hin). cbn [fst] in Hk. subst k.
        assert (HinM : In (x, c) m') by (rewrite HAB; apply in_or_app; left; exact Hin).
        pose proof (Hu x c c HinM HinM) as Hc. rewrite HAB, cnt_app in Hc.
        pose proof (@cnt_map_sub_in x c sub A Hin) as Hlow. fold m2 in Hlow. unfold sub in *. lia.
      * assert (HcA : cnt x A = 0).
        { apply distinct_cnt_absent. intros c Hc. apply HninA. apply in_map_iff. exists (x, c). auto. }
        assert (HcB : cnt x (b0 :: B') <= q).
        { destruct (in_dec (fun a b : bytes => list_eq_dec N.eq_dec a b) x (map fst (b0 :: B'))) as [HinB|HninB].
          - apply in_map_iff in HinB. destruct HinB as ([k c] & Hk & Hin). cbn [fst] in Hk. subst k.
            assert (HinM : In (x, c) m') by (rewrite HAB; apply in_or_app; right; exact Hin).
            pose proof (Hu x c c HinM HinM) as Hc. rewrite HAB, cnt_app, HcA in Hc.
            rewrite Forall_forall in HB. specialize (HB _ Hin). cbn [snd] in HB. lia.
          - rewrite distinct_cnt_absent; [lia|]. intros c Hc. apply HninB. apply in_map_iff. exists (x, c). auto. }
        lia.
  - right. split; [exact Hq1|]. split; [|split].
    + assert (Hsub : Forall (fun e : entry => sub <= snd e) A) by (eapply Forall_impl; [|exact HA]; cbn; intros; unfold sub; lia).
      pose proof (wt_map_sub Hsub) as Hw. fold m2 in Hw. rewrite HlA in Hw.
      assert (HwB : q <= wt (b0 :: B')) by (destruct b0 as [k0 c0]; cbn [wt snd] in *; lia).
      rewrite <- Hwt. rewrite HAB at 1. rewrite wt_app.
      assert (HK : N.of_nat KEEP = 512) by reflexivity. rewrite HK in Hw. unfold sub in *. lia.
    + unfold m2. rewrite map_length. exact HlA.
    + lia.
Qed.

(** * any sequence of updates *)
Definition mg_run (us : list entry) (m0 : mg) : mg := fold_left (fun m (e : entry) => mg_update m (fst e) (snd e)) us m0.

(** [D]: total slack, [T]: lossy compactions so far *)
Definition mg_inv (us : list entry) (m : mg) (D T : N) : Prop :=
  T <= D /\
  (forall x, cnt x m <= cnt x us /\ cnt x us <= cnt x m + D) /\
  wt m + 513 * (D - T) + T <= wt us /\
  N.of_nat (length m) + 512 * T <= N.of_nat (length us).

Lemma mg_update_inv us m D T x c : mg_inv us m D T ->
  exists D' T', mg_inv (us ++ [(x, c)]) (mg_update m x c) D' T'.
Proof.
  intros (HTD & Hc & Hw & Hl). unfold mg_update. set (m1 := m ++ [(x, c)]).
  assert (H1 : mg_inv (us ++ [(x, c)]) m1 D T).
  { unfold m1. split; [exact HTD|]. split; [|split].
    - intros y. rewrite !cnt_app. destruct (Hc y). lia.
    - rewrite !wt_app. lia.
    - rewrite !app_length. cbn [length]. lia. }
  destruct (Nat.eqb_spec (length m1) CAP) as [Hcap|Hn]; [|exists D, T; exact H1].
  destruct H1 as (_ & Hc1 & Hw1 & Hl1).
  destruct (tidy_spec m1) as (d & Hd & [(Hd0 & Hwt & Hlen)|(Hd1 & Hwt & Hlen & Hk)]).
  - exists D, T. subst d. split; [exact HTD|]. split; [|split].
    + intros y. destruct (Hd y), (Hc1 y). lia.
    + lia.
    + lia.
  - exists (D + d), (T + 1). split; [lia|]. split; [|split].
    + intros y. destruct (Hd y), (Hc1 y). lia.
    + replace (D + d - (T + 1)) with ((D - T) + (d - 1)) by lia. lia.
    + rewrite Hlen. rewrite Hcap in Hl1. assert (N.of_nat KEEP = 512) by reflexivity. assert (N.of_nat CAP = 1024) by reflexivity. lia.
Qed.

Theorem mg_run_inv : forall us2 us1 m D T, mg_inv us1 m D T ->
  exists D' T', mg_inv (us1 ++ us2) (mg_run us2 m) D' T'.
Proof.
  induction us2 as [|[x c] us2 IH]; intros us1 m D T Hi.
  - rewrite app_nil_r. exists D, T. exact Hi.
  - cbn [mg_run fold_left fst snd]. destruct (mg_update_inv x c Hi) as (D1 & T1 & H1).
    destruct (IH (us1 ++ [(x, c)]) (mg_update m x c) D1 T1 H1) as (D2 & T2 & H2).
    exists D2, T2. rewrite <- app_assoc in H2. exact H2.
Qed.

(** ** the accuracy of one summary *)
Theorem mg_accuracy us : exists D T,
  (forall x, cnt x (mg_done (mg_run us [])) <= cnt x us /\ cnt x us <= cnt x (mg_done (mg_run us [])) + D) /\
  T <= D /\ 513 * (D - T) + T <= wt us /\ 512 * T <= N.of_nat (length us).
Proof.
  assert (H0 : mg_inv [] [] 0 0) by (unfold mg_inv; cbn; repeat split; lia).
  destruct (mg_run_inv us H0) as (D & T & HTD & Hc & Hw & Hl). cbn [app] in *.
  exists D, T. split; [|split; [exact HTD|split; lia]].
  intros x. rewrite mg_done_cnt. apply Hc.
Qed.

(** in words: the estimate never exceeds the true count and falls short of it by at most
    (total weight) / 513 + (number of updates) / 512 *)
Corollary mg_error_bound us x :
  cnt x (mg_done (mg_run us [])) <= cnt x us /\
  513 * 512 * (cnt x us - cnt x (mg_done (mg_run us []))) <= 512 * wt us + 513 * 512 * (N.of_nat (length us) / 512).
Proof.
  destruct (mg_accuracy us) as (D & T & Hc & HTD & Hw & Hl). destruct (Hc x) as [H1 H2]. split; [exact H1|].
  assert (HT : T <= N.of_nat (length us) / 512) by (apply N.div_le_lower_bound; lia).
  assert (HD : 513 * D <= wt us + 512 * T) by lia.
  nia.
Qed.

(** in the exact regime (fewer than 1024 updates) nothing is lost *)
Corollary mg_exact us x : (length us < CAP)%nat -> cnt x (mg_done (mg_run us [])) = cnt x us.
Proof.
  intros Hlen.
  assert (G : forall us2 us1 m, (length us1 + length us2 < CAP)%nat -> (length m <= length us1)%nat ->
     (forall y, cnt y m = cnt y us1) -> forall y, cnt y (mg_run us2 m) = cnt y (us1 ++ us2)).
  { induction us2 as [|[k c] us2 IH]; intros us1 m Hl Hm Hc y; [rewrite app_nil_r; apply Hc|].
    cbn [mg_run fold_left fst snd]. unfold mg_update.
    destruct (Nat.eqb_spec (length (m ++ [(k, c)])) CAP) as [E|_].
    { rewrite app_length in E. cbn [length] in *. lia. }
    change (fold_left _ us2 (m ++ [(k, c)])) with (mg_run us2 (m ++ [(k, c)])).
    rewrite (IH (us1 ++ [(k, c)]) (m ++ [(k, c)])).
    - now rewrite <- app_assoc.
    - rewrite app_length. cbn [length] in *. lia.
    - rewrite !app_length. cbn [length]. lia.
    - intros z. rewrite !cnt_app, Hc. reflexivity. }
  rewrite mg_done_cnt. apply (G us [] []); cbn; auto; lia.
Qed.

(** * from the summary to the dictionary: dominant strings get one byte *)
Lemma distinct_nodup_keys l : distinct l -> NoDup (map fst l).
Proof.
  induction 1 as [|[k c] l Hs IH Hall]; cbn [map fst]; constructor; [|exact IH].
  intros Hin. apply in_map_iff in Hin. destruct Hin as ([k' c'] & Hk & Hin). cbn [fst] in Hk. subst k'.
  rewrite Forall_forall in Hall. specialize (Hall _ Hin). unfold key_lt in Hall. cbn [fst] in Hall.
  rewrite bcmp_refl in Hall. discriminate.
Qed.

Lemma mg_done_sorted m : sorted_by count_ge (mg_done m).
Proof. unfold mg_done. apply sort_by_sorted; [exact count_ge_total|exact count_ge_trans]. Qed.
Lemma mg_done_nodup m : NoDup (map fst (mg_done m)).
Proof.
  unfold mg_done. eapply Permutation_NoDup; [apply Permutation_map; symmetry; apply sort_by_perm|].
  apply distinct_nodup_keys, consolidate_distinct.
Qed.
Lemma mg_done_uniq m : uniq (mg_done m).
Proof. unfold mg_done. eapply uniq_perm; [symmetry; apply sort_by_perm|]. apply distinct_uniq, consolidate_distinct. Qed.

Lemma cnt_pos_in x l : 1 <= cnt x l -> exists c, In (x, c) l.
Proof.
  induction l as [|[k c] l IH]; cbn [cnt]; [lia|]. destruct (bcmp k x) eqn:E.
  - intros _. apply bcmp_eq in E. subst. exists c. left. reflexivity.
  - intros H. destruct (IH ltac:(lia)) as (c' & Hc). exists c'. right. exact Hc.
  - intros H. destruct (IH ltac:(lia)) as (c' & Hc). exists c'. right. exact Hc.
Qed.

(** [est]: what the merged summary says; [src]: what the sources' summaries say in total *)
Definition sources (cs : list codec) : list entry := flat_map (fun c => mg_done (cstats c)) cs.
Definition est (cs : list codec) (x : bytes) : N := cnt x (merged_hitters cs).
Definition src (cs : list codec) (x : bytes) : N := cnt x (sources cs).

Lemma merged_hitters_run cs : merged_hitters cs = mg_done (mg_run (sources cs) []).
Proof. reflexivity. Qed.

(** the second stage obeys the same accuracy bound, relative to the sources' summaries *)
Theorem merged_accuracy cs : exists D T,
  (forall x, est cs x <= src cs x /\ src cs x <= est cs x + D) /\
  T <= D /\ 513 * (D - T) + T <= wt (sources cs) /\ 512 * T <= N.of_nat (length (sources cs)).
Proof. unfold est, src. rewrite merged_hitters_run. apply mg_accuracy. Qed.

Lemma sorted_prefix_ge P x c Q : sorted_by count_ge (P ++ (x, c) :: Q) -> Forall (fun e : entry => c <= snd e) P.
Proof.
  unfold sorted_by. induction P as [|p P IH]; intros Hs; [constructor|].
  cbn [app] in Hs. inversion Hs as [|? ? Hs' Hall]; subst. constructor; [|apply IH; exact Hs'].
  rewrite Forall_forall in Hall. specialize (Hall (x, c) ltac:(apply in_or_app; right; left; reflexivity)).
  unfold count_ge in Hall. cbn [snd] in Hall. apply N.leb_le in Hall. exact Hall.
Qed.
Lemma nodup_prefix {A} (a b : list A) : NoDup (a ++ b) -> NoDup a.
Proof.
  induction a as [|h a IH]; cbn [app]; intros H; [constructor|]. inversion H as [|? ? Hn Hr]; subst.
  constructor; [|apply IH; exact Hr]. intros Hin. apply Hn. apply in_or_app. left. exact Hin.
Qed.
Lemma in_firstn_at (P : list entry) x c Q F : (length P < F)%nat -> In x (firstn F (map fst (P ++ (x, c) :: Q))).
Proof.
  intros H. rewrite map_app. cbn [map fst]. rewrite firstn_app. apply in_or_app. right. rewrite map_length.
  destruct (F - length P)%nat as [|k] eqn:E; [lia|]. cbn [firstn]. left. reflexivity.
Qed.

(** A string whose summed source count beats the slack, and which all but fewer than #free-tags
    strings cannot come close to, is a dictionary entry: it is stored in ONE byte. *)
Theorem dominant_one_byte cs x D :
  (forall y, est cs y <= src cs y /\ src cs y <= est cs y + D) ->
  D < src cs x ->
  (forall ys, NoDup ys -> Forall (fun y => src cs x - D <= src cs y) ys ->
     (length ys <= length (free_tags (flat_map cseen cs) 256))%nat) ->
  exists t, stored_form (new_from cs) x = Ok [t].
Proof.
  intros Hacc Hx Hfew. apply new_from_one_byte.
  pose proof (mg_done_sorted (mg_run (sources cs) [])) as Hs.
  pose proof (mg_done_nodup (mg_run (sources cs) [])) as Hnd.
  pose proof (mg_done_uniq (mg_run (sources cs) [])) as Hu.
  rewrite <- merged_hitters_run in Hs, Hnd, Hu.
  unfold est in Hacc. revert Hs Hnd Hu Hacc.
  revert Hfew. generalize (length (free_tags (flat_map cseen cs) 256)) as F. generalize (merged_hitters cs) as l.
  intros l F Hfew Hs Hnd Hu Hacc.
  destruct (Hacc x) as [Hx1 Hx2].
  assert (Hex : 1 <= cnt x l) by lia.
  destruct (cnt_pos_in x l Hex) as (c & Hin).
  assert (Hc : cnt x l = c) by (apply (Hu x c c Hin Hin)).
  destruct (in_split _ _ Hin) as (P & Q & HPQ). subst l.
  pose proof (sorted_prefix_ge _ _ _ _ Hs) as HP.
  apply in_firstn_at.
  assert (Hys : (length (map fst (P ++ [(x, c)])) <= F)%nat).
  { apply Hfew.
    - change ((x, c) :: Q) with ([(x, c)] ++ Q) in Hnd. rewrite app_assoc, map_app in Hnd.
      eapply nodup_prefix. exact Hnd.
    - apply Forall_forall. intros y Hy. apply in_map_iff in Hy. destruct Hy as ([k ck] & Hk & Hy). cbn [fst] in Hk. subst k.
      assert (HinL : In (y, ck) (P ++ (x, c) :: Q)).
      { apply in_app_or in Hy. apply in_or_app. destruct Hy as [Hy|[Hy|[]]]; [left; exact Hy|right; left; exact Hy]. }
      assert (Hey : cnt y (P ++ (x, c) :: Q) = ck) by (apply (Hu y ck ck HinL HinL)).
      assert (Hck : c <= ck).
      { apply in_app_or in Hy. destruct Hy as [Hy|[Hy|[]]]; [|inversion Hy; lia].
        rewrite Forall_forall in HP. apply (HP _ Hy). }
      destruct (Hacc y) as [Hy1 _]. lia. }
  rewrite map_length, app_length in Hys. cbn [length] in Hys.
  clear - Hys. unfold lt. rewrite Nat.add_1_r in Hys. exact Hys.
Qed.

(** * what a codec's summary is: one update of weight 1 per pushed non-empty string *)
Definition nonempty (x : bytes) : bool := match x with [] => false | _ => true end.
Lemma record_all_stats xs : forall c,
  cstats (fold_left record_stats xs c) = mg_run (map (fun x => (x, 1)) (filter nonempty xs)) (cstats c).
Proof.
  induction xs as [|x xs IH]; intros c; [reflexivity|]. cbn [fold_left]. rewrite IH.
  destruct x as [|b x]; cbn [filter nonempty map mg_run fold_left fst snd record_stats cstats]; reflexivity.
Qed.

(** a region created fresh (default, clear, merge_regions) and then pushed [xs]: its summary
    estimates every string's number of pushes from below, within the slack *)
Theorem codec_summary_accuracy xs c0 : cstats c0 = [] ->
  let us := map (fun x : bytes => (x, 1)) (filter nonempty xs) in
  exists D T,
    (forall x, cnt x (mg_done (cstats (fold_left record_stats xs c0))) <= cnt x us /\
               cnt x us <= cnt x (mg_done (cstats (fold_left record_stats xs c0))) + D) /\
    T <= D /\ 513 * (D - T) + T <= wt us /\ 512 * T <= N.of_nat (length us).
Proof. intros H0 us. rewrite record_all_stats, H0. apply mg_accuracy. Qed.

(** [cnt x us] is the number of times [x] was pushed *)
Lemma cnt_pushes x xs : cnt x (map (fun y : bytes => (y, 1)) xs) = N.of_nat (length (filter (fun y => match bcmp y x with Eq => true | _ => false end) xs)).
Proof.
  induction xs as [|y xs IH]; [reflexivity|]. cbn [map cnt filter]. rewrite IH.
  destruct (bcmp y x); cbn [length]; lia.
Qed.
