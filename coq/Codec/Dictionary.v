(** [DictionaryCodec], [MisraGries], [BytesMap], [consolidate] and [CodecRegion<DictionaryCodec, R>]
    (src/impls/codec.rs), executable.  Bytes are [N] (< 256 at the wire boundary). *)
From FC Require Import Base.Res Region.Region.
Set Implicit Arguments.
Local Open Scope N_scope.

Definition bytes := list N.

(** lexicographic order of [Vec<u8>] *)
Fixpoint bcmp (a b : bytes) : comparison :=
  match a, b with
  | [], [] => Eq | [], _ :: _ => Lt | _ :: _, [] => Gt
  | x :: a', y :: b' => match N.compare x y with Eq => bcmp a' b' | c => c end
  end.

(** * consolidate / MisraGries *)
Definition entry := (bytes * N)%type.

(** [slice::sort_by] is stable: an element is inserted after all elements that are <= it *)
Fixpoint ins_by (le : entry -> entry -> bool) (x : entry) (l : list entry) : list entry :=
  match l with [] => [x] | y :: l' => if le y x then y :: ins_by le x l' else x :: l end.
Definition sort_by (le : entry -> entry -> bool) (l : list entry) : list entry :=
  fold_left (fun acc x => ins_by le x acc) l [].

Definition key_le (a b : entry) : bool := match bcmp (fst a) (fst b) with Gt => false | _ => true end.
Definition count_ge (a b : entry) : bool := (snd b <=? snd a).   (* descending by count *)

(** accumulate runs of equal keys, drop zero totals *)
Fixpoint merge_adj (l : list entry) : list entry :=
  match l with
  | [] => []
  | (k, c) :: l' =>
    match merge_adj l' with
    | (k', c') :: r => match bcmp k k' with Eq => (k, c + c') :: r | _ => (k, c) :: (k', c') :: r end
    | [] => [(k, c)]
    end
  end.
Definition consolidate (l : list entry) : list entry :=
  filter (fun e => negb (snd e =? 0)) (merge_adj (sort_by key_le l)).

(** [Vec::with_capacity(1024)]: the summary compacts when it reaches its capacity *)
Definition CAP : nat := 1024.
Definition mg := list entry.

Fixpoint drop_zeros (l : list entry) : list entry :=   (* on the reversed list: pop trailing zeros *)
  match l with (x, 0) :: l' => drop_zeros l' | _ => l end.

Definition tidy (m : mg) : mg :=
  let m := sort_by count_ge (consolidate m) in
  let k := (CAP / 2)%nat in
  if (k <? length m)%nat then
    let sub := snd (nth k m ([], 0)) - 1 in
    let m := map (fun e : entry => (fst e, snd e - sub)) (firstn k m) in
    rev (drop_zeros (rev m))
  else m.

Definition mg_update (m : mg) (x : bytes) (c : N) : mg :=
  let m := m ++ [(x, c)] in if (length m =? CAP)%nat then tidy m else m.
Definition mg_done (m : mg) : list entry := sort_by count_ge (consolidate m).

(** * BytesMap *)
Record bmap := { offs : list nat; bbytes : bytes }.
Definition bm_default := {| offs := [0%nat]; bbytes := [] |}.
Definition bm_push (m : bmap) (x : option bytes) : bmap :=
  let b := match x with Some y => bbytes m ++ y | None => bbytes m end in
  {| offs := offs m ++ [length b]; bbytes := b |}.
Definition bm_get (m : bmap) (i : nat) : option bytes :=
  if (i <? length (offs m) - 1)%nat then
    let lo := nth i (offs m) 0%nat in let hi := nth (S i) (offs m) 0%nat in
    if (lo <? hi)%nat then Some (firstn (hi - lo) (skipn lo (bbytes m))) else None
  else None.

(** * DictionaryCodec *)
Record codec := {
  cenc : list (bytes * N);      (* BTreeMap<Vec<u8>, u8>, in insertion order (keys are distinct) *)
  cdec : bmap;                  (* tag -> entry *)
  cstats : mg;                  (* heavy-hitter summary of what was pushed *)
  cseen : list N;               (* the first-byte bitmap, as the list of observed first bytes *)
}.
Definition codec_default := {| cenc := []; cdec := bm_default; cstats := []; cseen := [] |}.

Fixpoint lookup (x : bytes) (e : list (bytes * N)) : option N :=
  match e with [] => None | (k, t) :: e' => match bcmp k x with Eq => Some t | _ => lookup x e' end end.

(** [encode]: the stored representation, or a refusal (the [assert!]) *)
Definition stored_form (c : codec) (x : bytes) : res bytes :=
  match lookup x (cenc c) with
  | Some t => Ok [t]
  | None => match x with
            | b :: _ => match bm_get (cdec c) (N.to_nat b) with Some _ => Panic | None => Ok x end
            | [] => Ok x
            end
  end.
Definition record_stats (c : codec) (x : bytes) : codec :=
  match x with
  | b :: _ => {| cenc := cenc c; cdec := cdec c; cstats := mg_update (cstats c) x 1; cseen := b :: cseen c |}
  | [] => c
  end.
Definition decode (c : codec) (st : bytes) : bytes :=
  match st with
  | b :: _ => match bm_get (cdec c) (N.to_nat b) with Some e => e | None => st end
  | [] => st
  end.

(** [new_from]: merge the sources' summaries, hand the tags 0..255 that no source saw as a first
    byte to the heaviest strings, in order *)
Definition assign_step (seen : list N) (acc : list entry * list (bytes * N) * bmap) (tag : nat)
  : list entry * list (bytes * N) * bmap :=
  let '(hh, e, d) := acc in
  if existsb (N.eqb (N.of_nat tag)) seen then (hh, e, bm_push d None)
  else match hh with
       | (x, _) :: hh' => (hh', e ++ [(x, N.of_nat tag)], bm_push d (Some x))
       | [] => (hh, e, d)
       end.
Definition merged_hitters (cs : list codec) : list entry :=
  mg_done (fold_left (fun m (e : entry) => mg_update m (fst e) (snd e)) (flat_map (fun c => mg_done (cstats c)) cs) []).
Definition new_from (cs : list codec) : codec :=
  let '(_, e, d) := fold_left (assign_step (flat_map cseen cs)) (seq 0 256) (merged_hitters cs, [], bm_default) in
  {| cenc := e; cdec := d; cstats := []; cseen := [] |}.

(** * CodecRegion<DictionaryCodec, R> over a byte region [R] *)
Section CodecRegion.
  Variable R : Region.
  Variable to_b : val R -> bytes.
  Variable of_b : bytes -> val R.
  Definition codec_region : Region := {|
    val := bytes; idx := idx R; st := st R * codec;
    dflt := (dflt R, codec_default);
    push := fun x v =>
      let* s := stored_form (snd x) v in
      let* '(r', i) := push R (fst x) (of_b s) in
      Ok ((r', record_stats (snd x) v), i);
    read := fun x i => let* s := read R (fst x) i in Ok (decode (snd x) (to_b s));
    clear := fun x => (clear R (fst x), codec_default);
    merge := fun l => (merge R (map fst l), new_from (map snd l));
  |}.
End CodecRegion.
