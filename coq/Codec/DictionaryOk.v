(** Proofs about the dictionary codec (C07): the tag table built by [new_from] is consistent for
    ANY source statistics, hence every accepted push reads back exactly, and a push is refused
    exactly when the input is not in the dictionary and starts with an assigned tag. *)
From FC Require Import Base.Res Region.Region Codec.Dictionary.
Set Implicit Arguments.
Local Open Scope N_scope.

(** * byte-string order *)
Lemma bcmp_eq a : forall b, bcmp a b = Eq -> a = b.
Proof.
  induction a as [|x a IH]; intros [|y b]; cbn; try discriminate; auto.
  destruct (N.compare_spec x y) as [Hxy|Hxy|Hxy]; try discriminate. intros Hab. subst. f_equal. auto.
Qed.
Lemma bcmp_refl a : bcmp a a = Eq.
Proof. induction a as [|x a IH]; cbn; [reflexivity|]. rewrite N.compare_refl. exact IH. Qed.

(** * BytesMap: a map built by pushes answers with the pushed entries *)
Definition entry_bytes (o : option bytes) : bytes := match o with Some x => x | None => [] end.
Definition flat (l : list (option bytes)) : bytes := concat (map entry_bytes l).
Definition bm_of (l : list (option bytes)) : bmap := fold_left bm_push l bm_default.

Lemma flat_app a b : flat (a ++ b) = flat a ++ flat b.
Proof. unfold flat. rewrite map_app, concat_app. reflexivity. Qed.

(** the representation reached by pushing [l] *)
Lemma bm_of_repr l :
  bbytes (bm_of l) = flat l /\
  offs (bm_of l) = map (fun k => length (flat (firstn k l))) (seq 0 (S (length l))).
Proof.
  unfold bm_of. rewrite <- (rev_involutive l). generalize (rev l) as r. clear l.
  induction r as [|x r IH]; [cbn; auto|].
  cbn [rev]. rewrite fold_left_app. cbn [fold_left]. destruct IH as [Hb Ho].
  set (m := fold_left bm_push (rev r) bm_default) in *.
  unfold bm_push. cbn [bbytes offs]. split.
  - rewrite flat_app, Hb. unfold flat at 2. cbn. rewrite app_nil_r. destruct x; cbn; [reflexivity|now rewrite app_nil_r].
  - rewrite Ho, app_length. cbn [length]. rewrite Nat.add_1_r.
    rewrite (seq_S (S (length (rev r))) 0). rewrite map_app. cbn [map Nat.add].
    f_equal.
    + apply map_ext_in. intros k Hk. apply in_seq in Hk.
      rewrite firstn_app. replace (k - length (rev r))%nat with 0%nat by lia. cbn. rewrite app_nil_r. reflexivity.
    + f_equal. rewrite firstn_all2 by (rewrite app_length; cbn; lia).
      rewrite flat_app, Hb. unfold flat at 2. cbn. rewrite app_nil_r.
      destruct x; cbn; [reflexivity|now rewrite app_nil_r].
Qed.

Lemma firstn_S_flat l i o : nth_error l i = Some o ->
  flat (firstn (S i) l) = flat (firstn i l) ++ entry_bytes o.
Proof.
  revert i. induction l as [|a l IH]; intros [|i] H; cbn in H; try discriminate.
  - inversion H; subst. cbn. unfold flat. cbn. now rewrite app_nil_r.
  - rewrite !firstn_cons. change (a :: firstn (S i) l) with ([a] ++ firstn (S i) l).
    change (a :: firstn i l) with ([a] ++ firstn i l). rewrite !flat_app, (IH i H), app_assoc. reflexivity.
Qed.

Lemma flat_split l i o : nth_error l i = Some o ->
  flat l = flat (firstn i l) ++ entry_bytes o ++ flat (skipn (S i) l).
Proof.
  intros H. rewrite <- (firstn_skipn (S i) l) at 1. rewrite flat_app, (firstn_S_flat _ _ H), app_assoc. reflexivity.
Qed.

Lemma nth_map_seq {A} (f : nat -> A) n i d : (i < n)%nat -> nth i (map f (seq 0 n)) d = f i.
Proof.
  intros H. rewrite (nth_indep _ d (f 0%nat)) by (rewrite map_length, seq_length; lia).
  rewrite (map_nth f (seq 0 n) 0%nat i). rewrite seq_nth by lia. reflexivity.
Qed.

Theorem bm_get_of l i :
  bm_get (bm_of l) i = match nth_error l i with
                       | Some (Some x) => match x with [] => None | _ => Some x end
                       | _ => None
                       end.
Proof.
  destruct (bm_of_repr l) as [Hb Ho]. unfold bm_get. rewrite Ho, Hb, map_length, seq_length.
  replace (S (length l) - 1)%nat with (length l) by lia.
  destruct (Nat.ltb_spec i (length l)) as [Hi|Hi].
  - destruct (nth_error l i) as [o|] eqn:E; [|apply nth_error_None in E; lia].
    rewrite !nth_map_seq by lia.
    rewrite (firstn_S_flat _ _ E), app_length.
    destruct (Nat.ltb_spec (length (flat (firstn i l))) (length (flat (firstn i l)) + length (entry_bytes o))) as [Hlt|Hge].
    + replace (length (flat (firstn i l)) + length (entry_bytes o) - length (flat (firstn i l)))%nat
        with (length (entry_bytes o)) by lia.
      rewrite (flat_split _ _ E) at 1. rewrite skipn_app, skipn_all, Nat.sub_diag. cbn [app skipn].
      rewrite firstn_app, firstn_all, Nat.sub_diag. cbn [firstn]. rewrite app_nil_r.
      destruct o as [x|]; cbn in *; [|lia]. destruct x; cbn in *; [lia|reflexivity].
    + destruct o as [x|]; [|reflexivity]. destruct x; [reflexivity|cbn in Hge; lia].
  - destruct (nth_error l i) eqn:E; [|reflexivity].
    assert (i < length l)%nat by (apply nth_error_Some; congruence). lia.
Qed.

(** * the tag assignment of [new_from] *)
Section Assign.
  Variable seen : list N.

  (** state of the loop together with the list of entries pushed into the decode map so far *)
  Definition astep (acc : list entry * list (bytes * N) * list (option bytes)) (tag : nat) :=
    let '(hh, e, pl) := acc in
    if existsb (N.eqb (N.of_nat tag)) seen then (hh, e, pl ++ [None])
    else match hh with
         | (x, _) :: hh' => (hh', e ++ [(x, N.of_nat tag)], pl ++ [Some x])
         | [] => (hh, e, pl)
         end.

  Lemma assign_step_repr acc tag : let '(hh, e, pl) := acc in
    assign_step seen (hh, e, bm_of pl) tag =
    let '(hh', e', pl') := astep acc tag in (hh', e', bm_of pl').
  Proof.
    destruct acc as [[hh e] pl]. cbn [assign_step astep].
    destruct (existsb (N.eqb (N.of_nat tag)) seen).
    - unfold bm_of. rewrite fold_left_app. reflexivity.
    - destruct hh as [|[x c] hh']; [reflexivity|]. unfold bm_of. rewrite fold_left_app. reflexivity.
  Qed.

  Lemma fold_assign_repr tags : forall hh e pl,
    fold_left (assign_step seen) tags (hh, e, bm_of pl) =
    let '(hh', e', pl') := fold_left astep tags (hh, e, pl) in (hh', e', bm_of pl').
  Proof.
    induction tags as [|t tags IH]; intros hh e pl; cbn [fold_left]; [reflexivity|].
    pose proof (assign_step_repr (hh, e, pl) t) as H. cbn beta iota in H. rewrite H.
    destruct (astep (hh, e, pl) t) as [[hh1 e1] pl1]. apply IH.
  Qed.

  (** loop invariant: while heavy hitters remain, exactly one entry was pushed per tag; every
      assigned pair sits at its tag's position and is a non-empty string *)
  Definition ainv (n : nat) (acc : list entry * list (bytes * N) * list (option bytes)) : Prop :=
    let '(hh, e, pl) := acc in
    (hh <> [] -> length pl = n) /\ (length pl <= n)%nat /\
    Forall (fun k : entry => fst k <> []) hh /\
    forall x t, In (x, t) e -> nth_error pl (N.to_nat t) = Some (Some x) /\ x <> [].

  Lemma astep_inv n acc : ainv n acc -> ainv (S n) (astep acc n).
  Proof.
    destruct acc as [[hh e] pl]. cbn [ainv astep]. intros (Hal & Hle & Hk & He).
    destruct (existsb (N.eqb (N.of_nat n)) seen).
    - repeat split.
      + intros Hh. rewrite app_length, (Hal Hh). cbn. lia.
      + rewrite app_length. cbn. lia.
      + assumption.
      + destruct (He x t H) as [Hn _]. rewrite nth_error_app1; [assumption|].
        apply nth_error_Some. congruence.
      + apply (He x t H).
    - destruct hh as [|[x c] hh'].
      + repeat split; try assumption; try tauto; try lia; apply (He _ _ H).
      + assert (Hl : length pl = n) by (apply Hal; discriminate).
        inversion Hk as [|? ? Hx Hk']; subst. cbn [fst] in Hx. repeat split.
        * intros _. rewrite app_length. cbn. lia.
        * rewrite app_length. cbn. lia.
        * assumption.
        * apply in_app_or in H. destruct H as [H|[H|[]]].
          -- destruct (He x0 t H) as [Hn _]. rewrite nth_error_app1; [assumption|].
             apply nth_error_Some. congruence.
          -- inversion H; subst. rewrite Nat2N.id, nth_error_app2 by lia.
             rewrite Nat.sub_diag. reflexivity.
        * apply in_app_or in H. destruct H as [H|[H|[]]]; [apply (He x0 t H)|inversion H; subst; assumption].
  Qed.

  Lemma fold_astep_inv k : forall n acc, ainv n acc -> ainv (n + k) (fold_left astep (seq n k) acc).
  Proof.
    induction k as [|k IH]; intros n acc H; cbn [seq fold_left]; [now rewrite Nat.add_0_r|].
    replace (n + S k)%nat with (S n + k)%nat by lia. apply IH. apply astep_inv. exact H.
  Qed.
End Assign.

Lemma lookup_in x e t : lookup x e = Some t -> In (x, t) e.
Proof.
  induction e as [|[k u] e IH]; cbn; [discriminate|].
  destruct (bcmp k x) eqn:E.
  - intros H. inversion H; subst. left. f_equal. apply bcmp_eq. exact E.
  - intros H. right. auto.
  - intros H. right. auto.
Qed.

(** * keys survive the summary operations: nothing but inserted (non-empty) strings ever shows up *)
Definition keys_ok (P : bytes -> Prop) (l : list entry) : Prop := Forall (fun e => P (fst e)) l.

Section Keys.
  Variable P : bytes -> Prop.
  Lemma ins_by_keys le x l : P (fst x) -> keys_ok P l -> keys_ok P (ins_by le x l).
  Proof.
    intros Hx. induction 1 as [|y l Hy Hl IH]; cbn; [repeat constructor; assumption|].
    destruct (le y x); [constructor; assumption|constructor; [assumption|constructor; assumption]].
  Qed.
  Lemma sort_by_keys le l : keys_ok P l -> keys_ok P (sort_by le l).
  Proof.
    unfold sort_by. assert (G : forall acc, keys_ok P acc -> keys_ok P l -> keys_ok P (fold_left (fun acc x => ins_by le x acc) l acc)).
    { induction l as [|x l IH]; intros acc Ha Hl; cbn; [assumption|].
      inversion Hl; subst. apply IH; [apply ins_by_keys; assumption|assumption]. }
    intros H. apply G; [constructor|assumption].
  Qed.
  Lemma merge_adj_keys l : keys_ok P l -> keys_ok P (merge_adj l).
  Proof.
    induction 1 as [|[k c] l Hk Hl IH]; cbn; [constructor|].
    destruct (merge_adj l) as [|[k' c'] r]; [repeat constructor; assumption|].
    inversion IH; subst. destruct (bcmp k k'); repeat constructor; assumption.
  Qed.
  Lemma filter_keys f l : keys_ok P l -> keys_ok P (filter f l).
  Proof. unfold keys_ok. intros H. rewrite Forall_forall in *. intros x Hx. apply filter_In in Hx. apply H, Hx. Qed.
  Lemma consolidate_keys l : keys_ok P l -> keys_ok P (consolidate l).
  Proof. intros H. unfold consolidate. apply filter_keys, merge_adj_keys, sort_by_keys, H. Qed.
  Lemma mg_done_keys m : keys_ok P m -> keys_ok P (mg_done m).
  Proof. intros H. unfold mg_done. apply sort_by_keys, consolidate_keys, H. Qed.
  Lemma drop_zeros_keys l : keys_ok P l -> keys_ok P (drop_zeros l).
  Proof.
    induction 1 as [|[x c] l Hx Hl IH]; cbn; [constructor|].
    destruct c; [assumption|constructor; assumption].
  Qed.
  Lemma rev_keys l : keys_ok P l -> keys_ok P (rev l).
  Proof. unfold keys_ok. intros H. rewrite Forall_forall in *. intros x Hx. apply H, in_rev, Hx. Qed.
  Lemma tidy_keys m : keys_ok P m -> keys_ok P (tidy m).
  Proof.
    intros H. unfold tidy. pose proof (sort_by_keys count_ge (consolidate_keys H)) as Hs.
    destruct (Nat.ltb _ _); [|assumption].
    apply rev_keys, drop_zeros_keys, rev_keys.
    unfold keys_ok in *. rewrite Forall_forall in *. intros x Hx. apply in_map_iff in Hx.
    destruct Hx as (y & <- & Hy). cbn. apply Hs. eapply In_firstn_in; eauto.
  Qed.
  Lemma mg_update_keys m x c : P x -> keys_ok P m -> keys_ok P (mg_update m x c).
  Proof.
    intros Hx Hm. unfold mg_update.
    assert (H : keys_ok P (m ++ [(x, c)])) by (apply Forall_app; split; [assumption|repeat constructor; assumption]).
    destruct (Nat.eqb _ _); [apply tidy_keys|]; assumption.
  Qed.
End Keys.

(** * the codec invariant *)
Definition dict_ok (c : codec) : Prop :=
  forall x t, lookup x (cenc c) = Some t -> bm_get (cdec c) (N.to_nat t) = Some x.
Definition codec_ok (c : codec) : Prop := dict_ok c /\ keys_ok (fun k => k <> []) (cstats c).

Lemma codec_default_ok : codec_ok codec_default.
Proof. split; [intros x t H; discriminate|constructor]. Qed.

Lemma record_stats_ok c x : codec_ok c -> codec_ok (record_stats c x).
Proof.
  intros [Hd Hk]. destruct x as [|b r]; [split; assumption|]. split; [exact Hd|].
  cbn. apply mg_update_keys; [discriminate|assumption].
Qed.

Lemma merged_hitters_keys cs : Forall codec_ok cs -> keys_ok (fun k => k <> []) (merged_hitters cs).
Proof.
  intros H. unfold merged_hitters. apply mg_done_keys.
  assert (Hin : keys_ok (fun k => k <> []) (flat_map (fun c => mg_done (cstats c)) cs)).
  { unfold keys_ok. rewrite Forall_forall. intros e He. apply in_flat_map in He. destruct He as (c & Hc & He).
    rewrite Forall_forall in H. destruct (H c Hc) as [_ Hk]. pose proof (mg_done_keys Hk) as Hd.
    unfold keys_ok in Hd. rewrite Forall_forall in Hd. apply Hd, He. }
  revert Hin. generalize (flat_map (fun c => mg_done (cstats c)) cs) as l.
  assert (G : forall l acc, keys_ok (fun k : bytes => k <> []) acc -> keys_ok (fun k : bytes => k <> []) l ->
              keys_ok (fun k : bytes => k <> []) (fold_left (fun m (e : entry) => mg_update m (fst e) (snd e)) l acc)).
  { induction l as [|e l IH]; intros acc Ha Hl; cbn; [assumption|]. inversion Hl; subst.
    apply IH; [apply mg_update_keys; assumption|assumption]. }
  intros l Hl. apply G; [constructor|assumption].
Qed.

(** the dictionary built from ANY well-formed sources is consistent *)
Theorem new_from_ok cs : Forall codec_ok cs -> codec_ok (new_from cs).
Proof.
  intros H. unfold new_from.
  pose proof (fold_assign_repr (flat_map cseen cs) (seq 0 256) (merged_hitters cs) [] []) as Hr.
  change (bm_of []) with bm_default in Hr. rewrite Hr. clear Hr.
  pose proof (@fold_astep_inv (flat_map cseen cs) 256 0 (merged_hitters cs, [], [])) as Hi.
  destruct (fold_left (astep (flat_map cseen cs)) (seq 0 256) (merged_hitters cs, [], [])) as [[hh e] pl].
  split; [|constructor]. intros x t Hl. cbn [cenc cdec] in *.
  assert (Hinv : ainv 0 (merged_hitters cs, [], [])).
  { cbn. repeat split; try lia; try tauto. apply merged_hitters_keys, H. }
  specialize (Hi Hinv). cbn [ainv] in Hi. destruct Hi as (_ & _ & _ & He).
  destruct (He x t (lookup_in _ _ Hl)) as [Hn Hx].
  rewrite bm_get_of, Hn. destruct x; [congruence|reflexivity].
Qed.

(** * round trip and refusal (C07) *)
Theorem dict_roundtrip c x st : codec_ok c -> stored_form c x = Ok st -> decode (record_stats c x) st = x.
Proof.
  intros [Hd _] Hs. unfold stored_form in Hs.
  assert (Hdec : cdec (record_stats c x) = cdec c) by (destruct x; reflexivity).
  unfold decode. rewrite Hdec.
  destruct (lookup x (cenc c)) as [t|] eqn:El.
  - inversion Hs; subst. rewrite (Hd x t El). reflexivity.
  - destruct x as [|b r]; [inversion Hs; subst; reflexivity|].
    destruct (bm_get (cdec c) (N.to_nat b)) eqn:Eg; [discriminate|]. inversion Hs; subst. rewrite Eg. reflexivity.
Qed.

(** a push is refused exactly when the input is not a dictionary entry and its first byte is an
    assigned tag (storing it literally would read back as that tag's entry) *)
Theorem dict_refusal c x : stored_form c x = Panic <->
  lookup x (cenc c) = None /\ exists b r e, x = b :: r /\ bm_get (cdec c) (N.to_nat b) = Some e.
Proof.
  unfold stored_form. destruct (lookup x (cenc c)) as [t|]; [split; [discriminate|intros [H _]; discriminate]|].
  destruct x as [|b r]; [split; [discriminate|intros (_ & b & r & e & H & _); discriminate]|].
  destruct (bm_get (cdec c) (N.to_nat b)) as [e|] eqn:Eg; split; try discriminate; try reflexivity.
  - intros _. split; [reflexivity|]. exists b, r, e. auto.
  - intros (_ & b' & r' & e' & Hx & Hg). inversion Hx; subst. congruence.
Qed.

(** dictionary entries are stored in exactly one byte *)
Theorem dict_one_byte c x t : lookup x (cenc c) = Some t -> stored_form c x = Ok [t].
Proof. intros H. unfold stored_form. rewrite H. reflexivity. Qed.

(** * CodecRegion<DictionaryCodec, R> meets the region contract, for any byte region [R] meeting it
      (so coded regions take part in every generic theorem: C01, C02, C04, C08, ...) *)
Section CodecRegionOK.
  Variable R : Region.
  Context `{RegionOK R}.
  Variable to_b : val R -> bytes.
  Variable of_b : bytes -> val R.
  Hypothesis tb_ob : forall x, to_b (of_b x) = x.
  (** the inner byte region accepts every byte string (true of [OwnedRegion<u8>]) *)
  Hypothesis inner_total : forall s w, dom s w.
  Local Notation CR := (codec_region R to_b of_b).

  Lemma decode_record_stats c v st : decode (record_stats c v) st = decode c st.
  Proof. destruct v; reflexivity. Qed.
  Lemma stored_form_record_stats c v w : stored_form (record_stats c v) w = stored_form c w.
  Proof. destruct v; reflexivity. Qed.

  #[export] Instance codec_region_spec : RSpec CR :=
    @Build_RSpec CR
      (fun x : st R * codec => inv (fst x) /\ codec_ok (snd x))
      (fun (x : st R * codec) (i : idx R) => valid (fst x) i)
      (fun (x : st R * codec) (v : bytes) => stored_form (snd x) v <> Panic)
      (fun x y : st R * codec => sim (fst x) (fst y) /\ snd x = snd y)
      (fun l : list (st R * codec) => mergeable (map fst l)).

  #[export] Instance codec_region_ok : RegionOK CR.
  Proof.
    constructor.
    - split; [apply inv_dflt|apply codec_default_ok].
    - (* push_safe *)
      intros [s c] v [s' c'] i [Hs Hc] Hp. cbn [push codec_region fst snd] in Hp.
      destruct (stored_form c v) as [stv|] eqn:Es; cbn [bind] in Hp; [|discriminate].
      destruct (push R s (of_b stv)) as [[s1 j]|] eqn:Ep; cbn [bind] in Hp; [|discriminate].
      inversion Hp; subst. clear Hp.
      destruct (push_safe s (of_b stv) Hs Ep) as (Hi1 & Hv1 & Hf1 & _).
      split; [split; [assumption|apply record_stats_ok; assumption]|].
      split; [exact Hv1|]. split.
      + intros k Hk. cbn [valid codec_region_spec fst snd] in *. destruct (Hf1 k Hk) as [Hv' Hr'].
        split; [assumption|]. cbn [read codec_region fst snd]. rewrite Hr'.
        destruct (read R s k); cbn [bind]; [|reflexivity]. rewrite decode_record_stats. reflexivity.
      + intros w. cbn [dom codec_region_spec snd]. rewrite stored_form_record_stats. reflexivity.
    - (* push_ok *)
      intros [s c] v [Hs Hc] Hd. cbn [dom codec_region_spec snd] in Hd.
      destruct (stored_form c v) as [stv|] eqn:Es; [|congruence].
      destruct (push_ok s (of_b stv) Hs (inner_total s (of_b stv))) as (s1 & j & Hp & Hr).
      exists (s1, record_stats c v), j. cbn [push read codec_region fst snd]. rewrite Es. cbn [bind].
      rewrite Hp. cbn [bind]. split; [reflexivity|]. rewrite Hr. cbn [bind]. rewrite tb_ob.
      cbn [snd] in Hc. rewrite (@dict_roundtrip c v stv Hc Es). reflexivity.
    - intros [s c] j [Hs _] Hv. cbn [fst snd valid codec_region_spec inv] in *.
      destruct (valid_reads s j Hs Hv) as (w & Hw). cbn [read codec_region fst snd]. rewrite Hw. cbn [bind]. eexists. reflexivity.
    - intros [s c] [Hs _]. cbn [fst snd inv sim codec_region_spec clear dflt codec_region] in *.
      destruct (clear_ok s Hs) as [Hci Hcs]. split; [split; [assumption|apply codec_default_ok]|split; [assumption|reflexivity]].
    - intros l Hl Hm. cbn. split.
      + apply merge_inv; [|exact Hm]. rewrite Forall_forall in *. intros y Hy. apply in_map_iff in Hy.
        destruct Hy as (x & <- & Hx). apply (Hl x Hx).
      + apply new_from_ok. rewrite Forall_forall in *. intros y Hy. apply in_map_iff in Hy.
        destruct Hy as (x & <- & Hx). apply (Hl x Hx).
    - intros [s c]. cbn. split; [apply sim_refl|reflexivity].
    - intros [s c] [t d] [H1 H2]. cbn in *. split; [apply sim_sym; assumption|congruence].
    - intros [s c] [t d] [u e] [H1 H2] [H3 H4]. cbn in *. split; [eapply sim_trans; eauto|congruence].
    - intros [s c] [t d] [H1 H2] w. cbn in *. subst. reflexivity.
    - (* sim_push *)
      intros [s c] [t d] v [s' c'] i [Hs Hc] [Ht Hd] [Hsim Heq] Hp. cbn [fst snd] in *. subst d.
      cbn [push codec_region fst snd] in *.
      destruct (stored_form c v) as [stv|] eqn:Es; cbn [bind] in *; [|discriminate].
      destruct (push R s (of_b stv)) as [[s1 j]|] eqn:Ep; cbn [bind] in Hp; [|discriminate].
      inversion Hp; subst.
      destruct (@sim_push R _ _ s t (of_b stv) s' i Hs Ht Hsim Ep) as (t' & Hq & Hs').
      exists (t', record_stats c v). rewrite Hq. cbn [bind]. split; [reflexivity|]. split; [assumption|reflexivity].
    - intros [s c] [t d] i [Hs Hc] [Ht Hd] [Hsim Heq] Hv. cbn [fst snd valid codec_region_spec] in *. subst d.
      destruct (@sim_read R _ _ s t i Hs Ht Hsim Hv) as [Hv' Hr]. split; [assumption|].
      cbn [read codec_region fst snd]. rewrite Hr. reflexivity.
  Qed.
End CodecRegionOK.

(** * which strings get a one-byte code: the heaviest ones, as many as there are free tags *)
Definition unseen (seen : list N) (t : nat) : bool := negb (existsb (N.eqb (N.of_nat t)) seen).
Definition free_tags (seen : list N) (n : nat) : list nat := filter (unseen seen) (seq 0 n).

Section Dictionary.
  Variable seen : list N.
  Variable hh0 : list entry.

  Definition dinv (n : nat) (acc : list entry * list (bytes * N) * list (option bytes)) : Prop :=
    let '(hh, e, _) := acc in
    map fst e ++ map fst hh = map fst hh0 /\
    length e = Nat.min (length (free_tags seen n)) (length hh0).

  Lemma free_tags_S n : free_tags seen (S n) = free_tags seen n ++ (if unseen seen n then [n] else []).
  Proof. unfold free_tags. rewrite seq_S, filter_app. cbn. destruct (unseen seen n); reflexivity. Qed.

  Lemma astep_dinv n acc : dinv n acc -> dinv (S n) (astep seen acc n).
  Proof.
    destruct acc as [[hh e] pl]. cbn [dinv]. intros [Hk Hl].
    assert (Hlen : (length e + length hh = length hh0)%nat).
    { apply (f_equal (@length _)) in Hk. rewrite app_length, !map_length in Hk. exact Hk. }
    unfold astep. destruct (existsb (N.eqb (N.of_nat n)) seen) eqn:E.
    - cbn [dinv]. rewrite free_tags_S. unfold unseen. rewrite E. cbn [negb]. rewrite app_nil_r. auto.
    - destruct hh as [|[x c] hh']; cbn [dinv]; rewrite free_tags_S; unfold unseen; rewrite E; cbn [negb];
        rewrite app_length; cbn [length] in *.
      + split; [assumption|lia].
      + split.
        * rewrite map_app, <- app_assoc. cbn. exact Hk.
        * rewrite app_length. cbn [length]. lia.
  Qed.

  Lemma fold_astep_dinv k : forall n acc, dinv n acc -> dinv (n + k) (fold_left (astep seen) (seq n k) acc).
  Proof.
    induction k as [|k IH]; intros n acc Hd; cbn [seq fold_left]; [now rewrite Nat.add_0_r|].
    replace (n + S k)%nat with (S n + k)%nat by lia. apply IH. apply astep_dinv. exact Hd.
  Qed.
End Dictionary.

(** the dictionary of a merged codec consists of exactly the first #free-tags strings of the merged
    heavy-hitter summary (count descending, then bytes ascending) ... *)
Lemma firstn_min_app {A} (e h : list A) F : length e = Nat.min F (length e + length h) ->
  e = firstn F (e ++ h).
Proof.
  intros Hl. destruct (Nat.le_ge_cases F (length e + length h)) as [Hle|Hge].
  - rewrite Nat.min_l in Hl by assumption. subst F. rewrite firstn_app, firstn_all, Nat.sub_diag.
    cbn. now rewrite app_nil_r.
  - rewrite Nat.min_r in Hl by assumption. assert (h = []) by (destruct h; [reflexivity|cbn in Hl; lia]). subst h.
    rewrite app_nil_r. rewrite firstn_all2; [reflexivity|]. cbn in Hge. lia.
Qed.

Theorem new_from_dictionary cs :
  map fst (cenc (new_from cs)) =
  firstn (length (free_tags (flat_map cseen cs) 256)) (map fst (merged_hitters cs)).
Proof.
  unfold new_from. generalize 256%nat. intros n.
  pose proof (fold_assign_repr (flat_map cseen cs) (seq 0 n) (merged_hitters cs) [] []) as Hr.
  change (bm_of []) with bm_default in Hr. rewrite Hr. clear Hr.
  pose proof (@fold_astep_dinv (flat_map cseen cs) (merged_hitters cs) n 0 (merged_hitters cs, [], [])) as Hi.
  destruct (fold_left (astep (flat_map cseen cs)) (seq 0 n) (merged_hitters cs, [], [])) as [[hh e] pl].
  cbn [cenc]. assert (Hd : dinv (flat_map cseen cs) (merged_hitters cs) 0 (merged_hitters cs, [], [])).
  { split; reflexivity. }
  specialize (Hi Hd). cbn [dinv Nat.add] in Hi. destruct Hi as [Hk Hl].
  assert (Hlen : (length (merged_hitters cs) = length (map fst e) + length (map fst hh))%nat).
  { pose proof (f_equal (@length _) Hk) as Hq. rewrite app_length, !map_length in Hq. rewrite !map_length. symmetry. exact Hq. }
  rewrite Hlen in Hl. rewrite <- (map_length fst e) in Hl at 1. rewrite <- Hk.
  apply firstn_min_app. exact Hl.
Qed.

Lemma lookup_some_of_key x e : In x (map fst e) -> exists t, lookup x e = Some t.
Proof.
  induction e as [|[k u] e IH]; cbn; [tauto|]. intros [Hx|Hx].
  - subst. rewrite bcmp_refl. eauto.
  - destruct (bcmp k x); eauto.
Qed.

(** ... and each of them is stored in exactly one byte. *)
Theorem new_from_one_byte cs x :
  In x (firstn (length (free_tags (flat_map cseen cs) 256)) (map fst (merged_hitters cs))) ->
  exists t, stored_form (new_from cs) x = Ok [t].
Proof.
  intros Hx. rewrite <- new_from_dictionary in Hx.
  destruct (lookup_some_of_key _ _ Hx) as (t & Ht). exists t. apply dict_one_byte. exact Ht.
Qed.
